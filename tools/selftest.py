"""./check selftest : validates the machinery itself (DESIGN.md section 9).
 1. projection round trip: Project(Build(Project(w))) = Project(w) on random worlds after random histories
 2. binding demonstration: a recorded trace is accepted as it is; corrupting one recorded field (a taint instant, a dropped call,
    a post-state value, a pre-state age) makes the trace specification report a divergence / the property violation
 3. the time-abstracting VIEW is a bisimulation quotient: a run WITHOUT the view and with time bounded at T visits exactly the
    views that the unbounded run WITH the view finds as distinct states (for two values of T)
"""
import os, json, copy, subprocess, shutil, re, sys


def run(K, scratch):
    ok = True
    hbin = K.build_harness(scratch)
    # ---- 1
    r = K.run([hbin, "roundtrip", "-n", "150"], cwd=scratch, env=K.GOENV, timeout=600)
    last = r.stdout.strip().splitlines()[-1]
    rt = json.loads(last)
    print("selftest 1 projection round trip:", rt)
    ok = ok and rt["mismatches"] == 0 and rt["worlds"] > 0
    # ---- 2
    d = os.path.join(scratch, "bind")
    os.makedirs(d)
    K.harness(hbin, ["drive", "-seed", "4", "-n", "30", "-steps", "70", "-profile", "reap", "-faults", "5", "-trace", os.path.join(d, "trace.ndjson")], d)
    recs, _ = K.validate_trace(d)
    base_div = sum(1 for x in recs if x["kind"] == "DIVERGENCE")
    base_vio = sum(1 for x in recs if x["kind"] == "VIOLATIONS")
    print("selftest 2 unmodified trace: lines %d divergences %d violating lines %d" % (sum(1 for x in recs if x["kind"] == "LINE"), base_div, base_vio))
    ok = ok and base_div == 0 and base_vio == 0
    lines = [json.loads(l) for l in open(os.path.join(d, "trace.ndjson"))]

    def find(pred):
        for i, l in enumerate(lines):
            if pred(l):
                return i
        return None

    def corrupt(name, idx, mutate, expect_div=None, expect_viol=None):
        nonlocal ok
        if idx is None:
            print("selftest 2 %s: no suitable line (skipped)" % name)
            ok = False
            return
        dd = os.path.join(scratch, "bind-" + name)
        os.makedirs(dd)
        l = copy.deepcopy(lines[idx])
        mutate(l)
        with open(os.path.join(dd, "trace.ndjson"), "w") as f:
            f.write(json.dumps(l) + "\n")
        rr, _ = K.validate_trace(dd)
        div = [x["what"] for x in rr if x["kind"] == "DIVERGENCE"]
        vio = [v for x in rr if x["kind"] == "VIOLATIONS" for v in x["v"]]
        good = (expect_div is None or any(expect_div in w for w in div)) and (expect_viol is None or any(v[0] == expect_viol for v in vio))
        print("selftest 2 corruption %-28s -> divergence %s violations %s : %s" % (name, div, [v[:2] for v in vio][:3], "DETECTED" if good else "NOT DETECTED"))
        ok = ok and good

    def has(op, **kw):
        return lambda l: any(c["op"] == op and c["ok"] and all(c[k] == v for k, v in kw.items()) for c in l["calls"])

    i = find(lambda l: any(c["op"] == "update" and c["ok"] and c["s"].startswith("taint:") for c in l["calls"]))
    def m1(l):
        for c in l["calls"]:
            if c["op"] == "update" and c["s"].startswith("taint:"):
                c["a"] -= 1
                return
    corrupt("taint-instant", i, m1, expect_div="calls", expect_viol="C15")
    i = find(has("terminate"))
    def m2(l):
        k = [j for j, c in enumerate(l["calls"]) if c["op"] == "terminate"][0]
        del l["calls"][k]
    corrupt("dropped-terminate-call", i, m2, expect_div="calls")
    i = find(has("set_desired"))
    def m3(l):
        g = [c["g"] for c in l["calls"] if c["op"] == "set_desired"][0]
        l["post"]["groups"][g]["asg"]["desired"] += 1
    corrupt("post-state-desired", i, m3, expect_div="post.asg")
    i = find(lambda l: any(c["op"] == "terminate" and c["ok"] and not l["pre"]["groups"][c["g"]]["api"][c["n"]]["force"] for c in l["calls"] if c["g"] in l["pre"]["groups"] and c["n"] in l["pre"]["groups"][c["g"]]["api"]))
    def m4(l):
        for c in l["calls"]:
            if c["op"] == "terminate" and c["ok"]:
                n = l["pre"]["groups"][c["g"]]["api"][c["n"]]
                if not n["force"]:
                    n["taint"]["at"] = l["pre"]["now"]      # pretend the node was tainted just now
                    return
    corrupt("pre-state-taint-age", i, m4, expect_viol="C01")
    i = find(has("set_desired"))
    def m5(l):
        for c in l["calls"]:
            if c["op"] == "set_desired":
                c["a"] += 50
    corrupt("set-desired-value", i, m5, expect_div="calls", expect_viol="C04")

    # ---- 3
    import families as FAM
    fam = FAM.resolve("dry", "quick")
    fam["PropIds"], fam["EmitRate"] = [], 0
    counts = {}
    for mode in ("view", "t5", "t6"):
        dd = os.path.join(scratch, "view-" + mode)
        os.makedirs(dd)
        K.copy_specs(dd)
        FAM.write_model(fam, dd)
        cfg = open(os.path.join(dd, "MC.cfg")).read()
        if mode != "view":
            cfg = cfg.replace("VIEW View\n", "").replace("INVARIANTS TypeOK Emit", "INVARIANTS TypeOK EmitView\nCONSTRAINT TimeBound")
            open(os.path.join(dd, "MC.tla"), "a").close()
            t = open(os.path.join(dd, "MC.tla")).read().replace("====", "TimeBound == now <= %s\nEmitView == PrintT(<<\"VIEWOF\", View>>)\n====" % mode[1:])
            open(os.path.join(dd, "MC.tla"), "w").write(t)
        open(os.path.join(dd, "MC.cfg"), "w").write(cfg)
        out = os.path.join(dd, "mc.out")
        with open(out, "w") as o:
            subprocess.run(K.JAVA[:1] + ["-Xmx8g"] + K.JAVA[1:] + ["tlc2.TLC", "-workers", "8", "-metadir", os.path.join(dd, "meta"), "-config", "MC.cfg", "MC.tla"],
                           cwd=dd, stdout=o, stderr=subprocess.STDOUT, timeout=1500)
        shutil.rmtree(os.path.join(dd, "meta"), ignore_errors=True)
        text = open(out, errors="replace").read()
        if mode == "view":
            counts[mode] = K.tlc_stats(text)["distinct"]
        else:
            # a printed value may span several lines: join, then split at the marker
            flat = re.sub(r"\s+", " ", text)
            flat = re.sub(r"Progress\([^)]*\) at [^.]*\.", " ", flat)      # progress lines may be interleaved
            parts = re.split(r'<<\s*"VIEWOF",', flat)[1:]
            parts[-1] = re.split(r"Model checking completed|Error:", parts[-1])[0]
            views = set(x.strip() for x in parts)
            counts[mode] = len(views)
            counts[mode + "_states"] = K.tlc_stats(text)["distinct"]
        os.remove(out)
    print("selftest 3 view quotient (family dry, quick):", counts)
    ok = ok and counts["view"] == counts["t5"] == counts["t6"]
    print("selftest", "PASSED" if ok else "FAILED")
    return 0 if ok else 2
