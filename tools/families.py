"""TLC configuration families for Escalator.tla (DESIGN.md appendix C). Each family fixes the constants of the
model: which environment actions are enabled, which faults are explored, the configuration of the group."""
import copy

BASE_CFG = dict(min=0, max=3, lower=30, upper=60, up=80, slow=1, fast=2, soft=1, hard=2, cool=2, maxAge=0,
                dry=False, starve=False, fleet=False, auto=False, effect="")

def fam(**kw):
    d = dict(G="a", NodeIds=["a1", "a2"], CfgC=copy.deepcopy(BASE_CFG), DryAll=False, AsgMin0=0, AsgMax0=3, AsgBoundsSet=[],
             KC=2, KM=2, MaxPend=1, EnvOn=[], FaultOps=[], MaxFaults=0, TaintKinds=["now"], InitNodes=2,
             PropIds=[], EmitRate=0, invariants=["TypeOK", "Emit"], workers=16,
             AV=dict(minNodes=0, created=[3], cordoned=[False], force=[False], nodel=[False], taint=[-1], run=[0], pend=[0], extra=[0], lost=[False], lock=[-1], delta=[0]))
    cfg = kw.pop("cfg", {})
    av = kw.pop("av", None)
    d.update(kw)
    d["CfgC"].update(cfg)
    if av:
        d["AV"] = dict(d["AV"], **av)
        d["init"], d["next"], d["view"] = "InitAll", "Stutter", None
        d["invariants"] = ["TypeOK", "InvNoViolation", "InvTotal", "Emit"]
    return d

ALLPROPS = ["C01", "C02", "C03", "C04", "C05", "C06", "C07", "C08", "C09", "C10", "C11", "C12", "C13", "C15", "C19", "C20"]

FAMILIES = {
    # removal: grace periods, force taints, cordons, unreadable taint values, restarts, terminate/delete faults
    "reap": fam(EnvOn=["Tick", "PodArrive", "PodSchedule", "PodFinish", "Cordon", "ExtForce", "ExtTaint", "Restart", "NodeGone"],
                FaultOps=["terminate", "delete"], MaxFaults=1, TaintKinds=["now", "bad"], cfg=dict(min=0), MaxPend=1, InitNodes=2),
    # force-removal taints next to ordinary ones
    "force": fam(EnvOn=["Tick", "PodArrive", "PodSchedule", "PodFinish", "ExtForce", "ExtUnforce", "ExtTaint", "Cordon"],
                 FaultOps=["terminate", "delete"], MaxFaults=1, TaintKinds=["now"], cfg=dict(min=0), MaxPend=1, InitNodes=2),
    # the no-delete annotation at every stage of a node's life
    "annot": fam(EnvOn=["Tick", "PodArrive", "PodSchedule", "PodFinish", "Annotate", "Unannotate", "ExtTaint", "ExtForce"],
                 FaultOps=[], MaxFaults=0, TaintKinds=["now"], cfg=dict(min=0), MaxPend=1, InitNodes=2),
    # cordons at every stage of a node's life
    "cordon": fam(EnvOn=["Tick", "PodArrive", "PodSchedule", "PodFinish", "Cordon", "Uncordon", "ExtTaint", "ExtForce", "Annotate"],
                  FaultOps=[], MaxFaults=0, TaintKinds=["now"], cfg=dict(min=0), MaxPend=1, InitNodes=2),
    # the cool-down lock: every spacing of Tick and RunOnce, below-minimum states during the window
    "lock": fam(EnvOn=["Tick", "PodArrive", "PodFinish", "CloudLaunch", "Register", "Cordon", "Uncordon", "ExtTaint", "ExtForce", "Restart"],
                FaultOps=["set_desired", "slow"], MaxFaults=1, cfg=dict(min=1, max=3), MaxPend=2, InitNodes=1),
    # scale up / down with untaint-before-buy, ties and failing writes
    "updown": fam(EnvOn=["Tick", "PodArrive", "PodSchedule", "PodFinish", "CloudLaunch", "Register", "ExtForce"],
                  FaultOps=["get", "update", "terminate"], MaxFaults=1, cfg=dict(min=0, max=2), AsgMax0=3, MaxPend=2),
    # force removal of several nodes (a terminate call failing midway) followed by a scale-up in the same scan
    "forceup": fam(EnvOn=["PodArrive", "PodFinish", "ExtForce", "ExtTaint", "Restart"], FaultOps=["terminate", "update"], MaxFaults=1,
                   cfg=dict(min=0, max=4), AsgMax0=5, MaxPend=3, KC=1, KM=1, InitNodes=2, NodeIds=["a1", "a2", "a3"], emit=2),
    # two removal batches in one scan (force reaper, then grace reaper) with a terminate call failing midway, near the ASG minimum
    "batches": fam(EnvOn=["ExtForce", "ExtTaint"], FaultOps=["terminate", "delete"], MaxFaults=1, TaintKinds=["zero"],
                   cfg=dict(min=0, max=4), AsgMin0=2, AsgMax0=5, MaxPend=0, KC=1, KM=1, InitNodes=4, NodeIds=["a1", "a2", "a3", "a4"], emit=1),
    # the process dies at every write of a scan (removal batches, taint writes, cloud requests); restart; next scan
    "crash": fam(EnvOn=["ExtForce", "ExtTaint", "PodArrive", "Restart"], FaultOps=["crash"], MaxFaults=1, TaintKinds=["zero"],
                 cfg=dict(min=0, max=4), AsgMin0=0, AsgMax0=5, MaxPend=1, KC=1, KM=1, InitNodes=3, NodeIds=["a1", "a2", "a3"], emit=8),
    # more nodes than max_nodes (an operator raised the desired capacity), tainted nodes that get pods (PreferNoSchedule), grace periods
    "overmax": fam(EnvOn=["Tick", "PodArrive", "PodSchedule", "PodOnTainted", "PodFinish", "ExtTaint", "DesiredBump", "CloudLaunch", "Register"],
                   TaintKinds=["now"], cfg=dict(min=0, max=2, soft=1, hard=3), AsgMin0=0, AsgMax0=3, MaxPend=1, KC=1, KM=1, InitNodes=2, NodeIds=["a1", "a2", "a3"]),
    # terminated instances stay listed in the ASG (lifecycle state Terminating) until the cloud drops them
    "linger": fam(EnvOn=["Tick", "ExtTaint", "ExtForce", "Linger", "NodeGone", "Restart"], FaultOps=["delete", "terminate"], MaxFaults=1,
                  TaintKinds=["zero"], cfg=dict(min=0, max=3), AsgMin0=0, AsgMax0=3, MaxPend=0, KC=1, KM=1, InitNodes=2),
    # the informer cache lags behind the API: the scan lists stale nodes, writes go to the live objects
    "lag": fam(EnvOn=["Tick", "PodArrive", "PodFinish", "ExtTaint", "ExtForce", "ExtUntaint", "Lag", "NodeGone"], FaultOps=["update", "conflict"], MaxFaults=1,
               TaintKinds=["now"], cfg=dict(min=0, max=3), AsgMin0=0, AsgMax0=3, MaxPend=1, KC=1, KM=1, InitNodes=2),
    # taint / untaint writes that lose a race against another writer (409 Conflict; the other writer set the no-delete annotation)
    "conflict": fam(EnvOn=["Tick", "PodArrive", "PodFinish", "ExtTaint", "ExtUntaint"], FaultOps=["conflict", "update"], MaxFaults=1,
                    TaintKinds=["now"], cfg=dict(min=1, max=3), AsgMin0=0, AsgMax0=3, MaxPend=1, KC=1, KM=1, InitNodes=2),
    # a group on its minimum with a node older than max_node_age while the load asks for several more nodes
    "agedup": fam(EnvOn=["Tick", "PodArrive", "PodFinish", "CloudLaunch", "Register"], FaultOps=[], MaxFaults=0, NodeIds=["a1", "a2"],
                  cfg=dict(min=1, max=4, maxAge=2, cool=1), AsgMin0=1, AsgMax0=4, MaxPend=3, KC=1, KM=1, InitNodes=1),
    # dry mode with hand-made escalator taints (unreadable value, far future) on nodes the dry run only remembers as tainted
    "drybad": fam(EnvOn=["Tick", "ExtTaint", "ExtUntaint", "PodArrive", "PodFinish", "InstanceLost", "NodeGone"], TaintKinds=["bad", "future", "now"], cfg=dict(dry=True, min=0), MaxPend=1, KC=1, KM=1),
    # the cloud replaces instances (lost, relaunched, registered) between force removals
    "swap": fam(EnvOn=["InstanceLost", "CloudLaunch", "Register", "ExtForce", "NodeGone"], FaultOps=["terminate"], MaxFaults=1, NodeIds=["a1", "a2", "a3"],
                cfg=dict(min=0, max=3), AsgMin0=0, AsgMax0=3, MaxPend=0, KC=1, KM=1, InitNodes=2),
    # nodes that report zero allocatable: requests over zero capacity
    "zerocap": fam(EnvOn=["Tick", "PodArrive", "PodFinish", "ExtTaint"], KC=0, KM=0, MaxPend=1, cfg=dict(min=0, max=3)),
    # an operator edits the ASG bounds of a group whose min / max are configured (not discovered)
    "asgedit": fam(EnvOn=["Tick", "PodArrive", "PodFinish", "AsgEdit", "CloudLaunch", "Register"],
                   cfg=dict(min=0, max=2), AsgMin0=0, AsgMax0=3, AsgBoundsSet=[[0, 1], [0, 2], [0, 3], [0, 4]], MaxPend=3, InitNodes=1),
    # dry mode (group flag)
    "dry": fam(EnvOn=["Tick", "PodArrive", "PodSchedule", "PodFinish", "ExtForce", "ExtTaint", "Cordon"],
               cfg=dict(dry=True, min=1), MaxPend=2),
    # auto-discovered bounds edited by the operator
    "auto": fam(EnvOn=["Tick", "PodArrive", "PodFinish", "AsgEdit", "CloudLaunch", "Register", "Cordon"],
                cfg=dict(auto=True, min=0, max=0), AsgMin0=0, AsgMax0=3, AsgBoundsSet=[[0, 3], [1, 3], [1, 2], [2, 3]], MaxPend=2),
}

# "for every cluster state" families: every well-typed state over small value sets is an initial state, one scan from each
FAMILIES["all_reap"] = fam(av=dict(minNodes=1, cordoned=[False, True], force=[False, True], nodel=[False, True], taint=[-1, -2, -3, 0, 1, 2, 3], run=[0, 1], extra=[0, 1], lost=[False, True]),
                           FaultOps=["terminate", "delete"], MaxFaults=1, cfg=dict(min=0), KC=4, KM=4, AsgMin0=0)
# every state of a group that has more nodes than max_nodes: the scan must not act on it at all
FAMILIES["all_overmax"] = fam(av=dict(minNodes=2, cordoned=[False, True], force=[False, True], nodel=[False], taint=[-1, -2, 0, 1, 2, 3], run=[0, 1], pend=[0, 1], extra=[0], lost=[False], lock=[-1, 1]),
                              FaultOps=["terminate"], MaxFaults=1, cfg=dict(min=0, max=1), KC=4, KM=4, AsgMin0=0, emit=1)
# every state of a two-node group with distinct ages and no-delete annotations, scale-down by one node: the annotation must not
# change which node is tainted (it protects from removal, not from tainting)
FAMILIES["all_annotscale"] = fam(av=dict(minNodes=2, created=[3, 4], nodel=[False, True], run=[0, 1], cordoned=[False], taint=[-1, 1]),
                                 cfg=dict(min=0, max=3, slow=1, fast=1), KC=4, KM=4, AsgMin0=0, emit=1)
FAMILIES["all_annot"] = fam(av=dict(minNodes=1, cordoned=[False], force=[False, True], nodel=[False, True], taint=[-1, 1, 2, 3], run=[0, 1], extra=[0], lost=[False]),
                            FaultOps=[], MaxFaults=0, cfg=dict(min=0), KC=4, KM=4, AsgMin0=0, emit=1)
FAMILIES["all_scale"] = fam(av=dict(minNodes=0, created=[3, 4], cordoned=[False, True], force=[False, True], taint=[-1, 0, 2], run=[0, 1, 2], pend=[0, 1, 3], extra=[0, 1], lock=[-1, 1, 2], delta=[0, 1]),
                            FaultOps=["get", "update", "set_desired"], MaxFaults=1, cfg=dict(min=1, max=3), AsgMax0=4, MaxPend=3)
FAMILIES["all_dry"] = fam(av=dict(minNodes=0, created=[3, 4], cordoned=[False, True], force=[False, True], taint=[-1, 0, 3], run=[0, 1, 2], pend=[0, 1, 3], extra=[0, 1], lock=[-1, 1]),
                          cfg=dict(min=1, max=3, dry=True), AsgMax0=4, MaxPend=3)

# the quick tier shrinks the families so that each finishes in well under a minute; the thorough tier uses them as they
# are (2 nodes) or with three nodes where that still terminates in minutes
TIER_OVERRIDES = {
    ("all_reap", "quick"): dict(AV=dict(minNodes=1, created=[3], cordoned=[False, True], force=[False, True], nodel=[False], taint=[-1, -2, 0, 2, 3], run=[0, 1], pend=[0], extra=[0, 1],
                                        lost=[False], lock=[-1], delta=[0])),
    ("all_scale", "quick"): dict(AV=dict(minNodes=0, created=[3, 4], cordoned=[False], force=[False], nodel=[False], taint=[-1, 0], run=[0, 1, 2], pend=[0, 3], extra=[0, 1],
                                         lost=[False], lock=[-1, 1], delta=[0])),
    ("all_dry", "quick"): dict(AV=dict(minNodes=0, created=[3, 4], cordoned=[False], force=[False, True], nodel=[False], taint=[-1, 0, 3], run=[0, 1], pend=[0, 3], extra=[0, 1],
                                       lost=[False], lock=[-1, 1], delta=[0])),
    ("reap", "quick"): dict(KC=1, KM=1, EnvOn=["Tick", "PodArrive", "PodSchedule", "PodFinish", "ExtTaint"], TaintKinds=["now", "bad"]),
    ("force", "quick"): dict(KC=1, KM=1, EnvOn=["Tick", "PodArrive", "PodSchedule", "PodFinish", "ExtForce", "ExtTaint"], TaintKinds=["now"], FaultOps=["terminate"]),
    ("reap", "thorough"): dict(KC=1, KM=1, EnvOn=["Tick", "PodArrive", "PodSchedule", "PodFinish", "ExtTaint", "Restart", "NodeGone"], TaintKinds=["now", "bad", "zero"]),
    ("force", "thorough"): dict(KC=1, KM=1, EnvOn=["Tick", "PodArrive", "PodSchedule", "PodFinish", "ExtForce", "ExtUnforce", "ExtTaint", "Restart"], TaintKinds=["now"], FaultOps=["terminate", "delete", "crash"]),
    ("annot", "quick"): dict(KC=1, KM=1),
    ("lag", "quick"): dict(EnvOn=["Tick", "PodArrive", "ExtTaint", "ExtForce", "ExtUntaint", "Lag", "NodeGone"], FaultOps=[], MaxFaults=0),
    ("cordon", "quick"): dict(KC=1, KM=1, EnvOn=["Tick", "PodArrive", "PodSchedule", "PodFinish", "Cordon", "Uncordon", "ExtTaint", "ExtForce"]),
    ("lock", "quick"): dict(KC=1, KM=1, MaxPend=1, EnvOn=["Tick", "PodArrive", "PodFinish", "CloudLaunch", "Register", "Cordon", "ExtForce", "Restart"]),
    ("updown", "quick"): dict(MaxPend=2, EnvOn=["Tick", "PodArrive", "PodSchedule", "PodFinish", "CloudLaunch", "Register"], FaultOps=["get", "update"]),
    ("dry", "quick"): dict(MaxPend=1, EnvOn=["Tick", "PodArrive", "PodSchedule", "PodFinish", "ExtForce", "Cordon"]),
    ("auto", "quick"): dict(MaxPend=1, EnvOn=["Tick", "PodArrive", "PodFinish", "AsgEdit", "CloudLaunch", "Register"]),
}

# configuration variants ("for every valid node-group configuration"): "<family>@<variant>" is the family with these overrides
VARIANTS = {
    "v2": dict(cfg=dict(soft=2, hard=3, cool=1, slow=0, fast=3, lower=10, upper=20, up=50, effect="NoExecute")),
    "v3": dict(cfg=dict(slow=2, fast=2, lower=40, upper=60, up=100, maxAge=2), KM=1),
    "v4": dict(cfg=dict(starve=True, lower=1, upper=50, up=120)),
    # the group starts on its bound min(max_nodes, cloud maximum): no headroom for a cloud request
    "bound": dict(cfg=dict(max=2), AsgMax0=3),
}


def resolve(name, tier):
    """family dict for "<family>" or "<family>@<variant>" at a tier"""
    base, _, var = name.partition("@")
    f = copy.deepcopy(FAMILIES[base])
    f.update(copy.deepcopy(TIER_OVERRIDES.get((base, tier), {})))
    if "cfg" in f:
        f["CfgC"].update(f.pop("cfg"))
    if var:
        v = copy.deepcopy(VARIANTS[var])
        if f.get("module") == "EscalatorMulti":
            for g in f["CfgOf"]:
                f["CfgOf"][g].update(v.get("cfg", {}))
        else:
            f["CfgC"].update(v.pop("cfg", {}))
            f.update(v)
    return f


def tla_value(v):
    if isinstance(v, bool):
        return "TRUE" if v else "FALSE"
    if isinstance(v, int):
        return str(v)
    if isinstance(v, str):
        return '"%s"' % v
    if isinstance(v, (list, tuple)):
        if v and isinstance(v[0], (list, tuple)):
            return "{" + ", ".join("<<" + ", ".join(tla_value(x) for x in t) + ">>" for t in v) + "}"
        return "{" + ", ".join(tla_value(x) for x in v) + "}"
    if isinstance(v, dict):
        return "[" + ", ".join("%s |-> %s" % (k, tla_value(x)) for k, x in v.items()) + "]"
    raise ValueError(v)

CONSTS = ["G", "NodeIds", "CfgC", "DryAll", "AsgMin0", "AsgMax0", "AsgBoundsSet", "KC", "KM", "MaxPend", "EnvOn", "FaultOps",
          "MaxFaults", "TaintKinds", "InitNodes", "PropIds", "EmitRate", "AV"]

def write_sim_model(d, outdir, depth, name="MCSim"):
    """Escalator.tla family d as a simulation model that emits behaviours (EscalatorSim.tla)"""
    lines = ["---- MODULE %s ----" % name, "EXTENDS EscalatorSim"]
    for c in CONSTS:
        lines.append("mc_%s == %s" % (c, tla_value(d[c])))
    lines.append("mc_SimDepth == %d" % depth)
    lines.append("====")
    open("%s/%s.tla" % (outdir, name), "w").write("\n".join(lines) + "\n")
    cfg = ["CONSTANTS"] + ["  %s <- mc_%s" % (c, c) for c in CONSTS] + ["  SimDepth <- mc_SimDepth"]
    cfg += ["INIT SimInit", "NEXT SimNext", "INVARIANTS TypeOK EmitInit EmitBehaviour", "CHECK_DEADLOCK FALSE"]
    open("%s/%s.cfg" % (outdir, name), "w").write("\n".join(cfg) + "\n")


MULTI_CONSTS = ["Gs", "NodeIdsOf", "CfgOf", "AsgMinOf", "AsgMaxOf", "DryAll", "AsgMax0", "KC", "KM", "MaxPend", "EnvOn", "FaultOps", "MaxFaults", "InitNodes", "PropIds", "EmitRate"]


def write_model(d, outdir, name="MC", init="Init", next_="Next", view="View"):
    """writes <outdir>/<name>.tla and <name>.cfg for family dict d"""
    if d.get("module") == "EscalatorMulti":
        return write_model_multi(d, outdir, name)
    lines = ["---- MODULE %s ----" % name, "EXTENDS Escalator"]
    for c in CONSTS:
        lines.append("mc_%s == %s" % (c, tla_value(d[c])))
    lines.append("====")
    open("%s/%s.tla" % (outdir, name), "w").write("\n".join(lines) + "\n")
    cfg = ["CONSTANTS"] + ["  %s <- mc_%s" % (c, c) for c in CONSTS]
    init, next_, view = d.get("init", init), d.get("next", next_), d.get("view", view)
    cfg += ["INIT %s" % init, "NEXT %s" % next_]
    if view:
        cfg.append("VIEW %s" % view)
    cfg.append("INVARIANTS " + " ".join(d["invariants"]))
    cfg.append("CHECK_DEADLOCK FALSE")
    open("%s/%s.cfg" % (outdir, name), "w").write("\n".join(cfg) + "\n")

def write_model_multi(d, outdir, name="MC"):
    lines = ["---- MODULE %s ----" % name, "EXTENDS EscalatorMulti"]
    gs = d["Gs"]
    lines.append("mc_Gs == <<%s>>" % ", ".join('"%s"' % g for g in gs))
    lines.append("mc_NodeIdsOf == [g \\in {%s} |-> %s]" % (", ".join('"%s"' % g for g in gs),
                 " ".join('IF g = "%s" THEN %s ELSE' % (g, tla_value(d["NodeIdsOf"][g])) for g in gs) + " {}"))
    lines.append("mc_CfgOf == [g \\in {%s} |-> %s]" % (", ".join('"%s"' % g for g in gs),
                 " ".join('IF g = "%s" THEN %s ELSE' % (g, tla_value(d["CfgOf"][g])) for g in gs) + " " + tla_value(d["CfgOf"][gs[0]])))
    lines.append("mc_AsgMinOf == [g \\in {%s} |-> %s]" % (", ".join('"%s"' % g for g in gs),
                 " ".join('IF g = "%s" THEN %d ELSE' % (g, d["AsgMinOf"][g]) for g in gs) + " 0"))
    amax = d.get("AsgMaxOf") or {g: d["AsgMax0"] for g in gs}
    lines.append("mc_AsgMaxOf == [g \\in {%s} |-> %s]" % (", ".join('"%s"' % g for g in gs),
                 " ".join('IF g = "%s" THEN %d ELSE' % (g, amax[g]) for g in gs) + " 0"))
    for c in MULTI_CONSTS:
        if c not in ("Gs", "NodeIdsOf", "CfgOf", "AsgMinOf", "AsgMaxOf"):
            lines.append("mc_%s == %s" % (c, tla_value(d[c])))
    lines.append("====")
    open("%s/%s.tla" % (outdir, name), "w").write("\n".join(lines) + "\n")
    cfg = ["CONSTANTS"] + ["  %s <- mc_%s" % (c, c) for c in MULTI_CONSTS]
    cfg += ["INIT Init", "NEXT Next", "VIEW View", "INVARIANTS " + " ".join(d["invariants"]), "CHECK_DEADLOCK FALSE"]
    open("%s/%s.cfg" % (outdir, name), "w").write("\n".join(cfg) + "\n")


def multi(**kw):
    cfg_a = dict(BASE_CFG, min=0, max=2)
    cfg_b = dict(BASE_CFG, min=0, max=2, lower=20, upper=40, up=70)
    d = dict(module="EscalatorMulti", Gs=["a", "default"], NodeIdsOf={"a": ["a1", "a2"], "default": ["d1"]}, CfgOf={"a": cfg_a, "default": cfg_b}, AsgMinOf={"a": 1, "default": 0}, DryAll=False,
             AsgMax0=3, KC=1, KM=1, MaxPend=1, EnvOn=[], FaultOps=[], MaxFaults=0, InitNodes=1, PropIds=[], EmitRate=0,
             invariants=["TypeOK", "Emit", "InvIsolation"], workers=16)
    d.update(kw)
    if not d.get("AsgMaxOf"):
        d["AsgMaxOf"] = {g: d["AsgMax0"] for g in d["Gs"]}
    return d


FAMILIES["multi"] = multi(EnvOn=["Tick", "PodArrive", "PodSchedule", "PodFinish", "ExtTaint", "ExtForce", "InstanceLost", "Restart"],
                          FaultOps=["list_pods", "list_nodes", "terminate", "update"], MaxFaults=1)
TIER_OVERRIDES[("multi", "quick")] = dict(EnvOn=["Tick", "PodArrive", "PodSchedule", "PodFinish", "ExtTaint", "InstanceLost", "Restart"], NodeIdsOf={"a": ["a1"], "default": ["d1"]})
FAMILIES["overmax"]["simulate"] = dict(quick=dict(num=8, depth=40), thorough=dict(num=120, depth=60))   # too large for BFS (> 7.8 M states in 10 min)
FAMILIES["multi"]["simulate"] = dict(quick=dict(num=10, depth=30), thorough=dict(num=150, depth=40))
FAMILIES["multidry"] = multi(EnvOn=["Tick", "PodArrive", "PodSchedule", "PodFinish", "ExtTaint", "ExtForce"], FaultOps=[], MaxFaults=0,
                             CfgOf={"a": dict(BASE_CFG, min=0, max=2, dry=True), "default": dict(BASE_CFG, min=0, max=2, lower=20, upper=40, up=70)})
FAMILIES["multidry"]["simulate"] = dict(quick=dict(num=10, depth=30), thorough=dict(num=150, depth=40))
# an auto-discovering group whose cloud group is pinned (min = max) in front of another group
FAMILIES["multipin"] = multi(EnvOn=["Tick", "PodArrive", "PodSchedule", "PodFinish", "ExtTaint"], FaultOps=[], MaxFaults=0,
                             CfgOf={"a": dict(BASE_CFG, min=0, max=0, auto=True), "default": dict(BASE_CFG, min=0, max=2, lower=20, upper=40, up=70)},
                             NodeIdsOf={"a": ["a1"], "default": ["d1", "d2"]}, AsgMinOf={"a": 1, "default": 0}, AsgMaxOf={"a": 1, "default": 3})
FAMILIES["multipin"]["simulate"] = dict(quick=dict(num=6, depth=20), thorough=dict(num=100, depth=40))
TIER_OVERRIDES[("multidry", "quick")] = dict(NodeIdsOf={"a": ["a1"], "default": ["d1"]})


if __name__ == "__main__":
    import sys, os
    f = resolve(sys.argv[1], os.environ.get("TIER", "thorough"))
    f["PropIds"] = [os.environ["PROP"]] if os.environ.get("PROP") else ALLPROPS
    write_model(f, sys.argv[2])
