#!/bin/sh
# runs every check of the manifest at the given tier (default quick) and prints one line per property
TIER=${1:-quick}
cd "$(dirname "$0")/.."
for id in C01 C02 C03 C04 C05 C06 C07 C08 C09 C10 C11 C12 C13 C14 C15 C16 C17 C18 C19 C20; do
  s=$(date +%s)
  ./check $id --tier $TIER > /tmp/runall-$$-$id.out 2>&1; rc=$?
  e=$(date +%s)
  echo "$id rc=$rc $((e-s))s $(grep -c '^VIOLATION' /tmp/runall-$$-$id.out) violations $(grep -m1 'INCONCLUSIVE' /tmp/runall-$$-$id.out | cut -c1-160)"
done
