"""Function / provider families for ./check (C05, C13, C14, C16, C17, C18, C19 provider level, C15 object level):
TLC enumerates or explores the input space of a specification module and emits CASE lines; the harness runs every case
through the real code and records what happened; a trace specification validates the records and evaluates the property
predicates.  `stages` of a plan: list of dicts
   gen:      [(tla module, cfg file, {cfg constant overrides})]   TLC runs that check the model and emit cases
   cmd:      harness sub-command that runs the cases
   trace:    trace specification module (with <module>.cfg next to it)
"""
import os, json, subprocess, shutil, time, random, collections, re, copy


def tlc(K, d, module, cfg, workers=8, heap="6g", timeout=1500, seed=1):
    cmd = K.JAVA[:1] + ["-Xmx" + heap] + K.JAVA[1:] + ["tlc2.TLC", "-workers", str(workers), "-seed", str(seed), "-metadir", os.path.join(d, "meta-" + cfg),
                                                    "-config", cfg, module]
    out = os.path.join(d, cfg + ".out")
    t0 = time.time()
    with open(out, "w") as o:
        try:
            r = subprocess.run(cmd, cwd=d, stdout=o, stderr=subprocess.STDOUT, timeout=timeout)
            rc = r.returncode
        except subprocess.TimeoutExpired:
            rc = -9
    shutil.rmtree(os.path.join(d, "meta-" + cfg), ignore_errors=True)
    text = open(out, errors="replace").read()
    return rc, text, out, round(time.time() - t0, 1), " ".join(cmd[:3] + ["..."] + cmd[-8:])


def check(prop, tier, seed, scratch, plan, replay, K):
    t0 = time.time()
    rng = random.Random(seed)
    hbin = K.build_harness(scratch)
    models = []
    states = trans = 0
    units = []   # (name, dir, cases_path, trace spec)
    exhaustive = True
    for si, st in enumerate(plan["stages"]):
        d = os.path.join(scratch, "stage%d" % si)
        os.makedirs(d)
        K.copy_specs(d)
        cases = []
        if replay:
            cases = [json.loads(l) for l in open(replay) if l.strip()]
            if cases and cases[0].get("stage", si) != si:
                continue
        else:
            for (module, cfgname, overrides) in st["gen"][tier]:
                cfgpath = os.path.join(d, cfgname)
                if overrides:
                    txt = open(cfgpath).read()
                    for k, v in overrides.items():
                        txt = re.sub(r"(\b%s\s*=\s*)\S+" % re.escape(k), lambda m: m.group(1) + v, txt)
                    txt = txt.replace("@SEED@", str(seed))
                    open(cfgpath, "w").write(txt)
                rc, text, out, wall, cmd = tlc(K, d, module, cfgname, seed=seed)
                stt = K.tlc_stats(text)
                models.append(dict(module=module, cfg=cfgname, overrides=overrides, rc=rc, stats=stt, wall_s=wall, cmd=cmd))
                if rc != 0 or stt is None:
                    if "is violated" in text or "Assert" in text:
                        raise K.Inconclusive("the specification %s violates its own invariants (spec error, not a code verdict): %s" % (module, text[-1500:]))
                    raise K.Inconclusive("TLC failed on %s/%s rc=%s: %s" % (module, cfgname, rc, text[-1500:]))
                states += stt["distinct"]
                trans += stt["generated"]
                exhaustive = exhaustive and stt["left"] == 0
                for rec in K.parse_printed_json(out):
                    if rec.get("kind") == "CASE":
                        cases.append(rec["case"])
                os.remove(out)
            limit = st.get("max_cases", {}).get(tier)
            if limit and len(cases) > limit:
                cases = rng.sample(cases, limit)
        if not cases:
            raise K.Inconclusive("stage %d produced no cases" % si)
        cpath = os.path.join(d, "cases.ndjson")
        with open(cpath, "w") as f:
            for i, c in enumerate(cases):
                c.setdefault("src", "%s:%d:%d" % (st["cmd"], si, i))
                c["stage"] = si
                f.write(json.dumps(c) + "\n")
        K.harness(hbin, [st["cmd"], "-in", cpath, "-trace", os.path.join(d, "trace.ndjson")] + st.get("args", []) + ["-seed", str(seed)] * (1 if st.get("seeded") else 0), d)
        units.append((st["cmd"], d, cpath, st["trace"], len(cases)))

    facts = collections.Counter()
    viol = []
    div = 0
    divs = []
    lines = 0
    nontriv = set()
    samples = []
    checker_cmd = ""
    for (name, d, cpath, tspec, n) in units:
        recs, cmd = K.validate_trace(d, spec=tspec)
        checker_cmd = cmd
        digests = K.line_digests(os.path.join(d, "trace.ndjson")) if False else None
        tl = open(os.path.join(d, "trace.ndjson")).read().splitlines()
        for r in recs:
            if r["kind"] == "LINE":
                lines += 1
                mine = [f for f in r["facts"]]
                for f in mine:
                    facts[f] += 1
                if mine:
                    nontriv.add(K.hashlib.md5(tl[r["line"] - 1].encode()).hexdigest())
                    if len(samples) < 3 and rng.random() < 0.02:
                        samples.append(json.loads(tl[r["line"] - 1]))
            elif r["kind"] == "DIVERGENCE":
                div += 1
                if len(divs) < 5:
                    divs.append(dict(src=r["src"], what=r["what"]))
            elif r["kind"] == "VIOLATIONS":
                for v in r["v"]:
                    if v[0] == prop:
                        viol.append((name, d, cpath, r, v))
    if not samples and units:
        tl = open(os.path.join(units[0][1], "trace.ndjson")).read().splitlines()
        samples.append(json.loads(tl[0]))
    for s in samples:
        for k in list(s.keys()):
            if isinstance(s[k], list) and len(s[k]) > 12:
                s[k] = s[k][:12] + ["..."]

    known = K.load_known()
    printed = set()
    new_viol = []
    for x in viol:
        v = x[4]
        k = [y for y in known if y[0] == prop and y[1] == v[1]]
        if k:
            if k[0][2] not in printed:
                printed.add(k[0][2])
                print("KNOWN-FINDING: property=%s %s" % (prop, re.sub(r"^property=\S+\s*", "", k[0][2][len("known:"):].strip())))
            continue
        new_viol.append(x)
    os.makedirs(os.path.join(K.OUT, "replays"), exist_ok=True)
    reported = set()
    for (name, d, cpath, r, v) in new_viol:
        if v[1] in reported or len(reported) >= 5:
            continue
        reported.add(v[1])
        rp = os.path.join(K.OUT, "replays", "%s-%s-%d.ndjson" % (prop, re.sub(r"[^A-Za-z0-9]+", "_", str(v[1]))[:40], seed))
        with open(cpath) as f, open(rp, "w") as o:
            for l in f:
                if json.loads(l).get("src") == r["src"]:
                    o.write(l)
        print("VIOLATION property=%s replay=%s" % (prop, rp))
        print("  what: %s detail=%s (case %s)" % (v[1], v[3] if len(v) > 3 else "", r["src"]))
    required = plan.get("required_facts", [])
    missing = [f for f in required if facts.get(f, 0) == 0]
    coverage = dict(states=max(1, states), transitions=max(1, trans), traces_validated_against_impl=lines, evaluations=lines,
                    distinct_nontrivial=len(nontriv), rule=plan["rule"], samples=samples, exhaustive=exhaustive, model_runs=models,
                    facts=dict(facts), divergences=div, divergence_samples=divs, checker_cmd=checker_cmd, missing_required_facts=missing)
    extra_rc = 0
    if plan.get("also_ctl") and not replay:
        # the controller-level part of the same property (model families + histories), merged into the same evidence
        sub = os.path.join(scratch, "ctl")
        os.makedirs(sub)
        import plans as P
        extra_rc = K.check_ctl(prop, tier, seed, sub, plan["also_ctl"], None)
        try:
            ctl_ev = json.load(open(os.path.join(K.OUT, "evidence", prop + ".json")))
            coverage["controller_level"] = ctl_ev["coverage"]
            coverage["states"] += ctl_ev["coverage"]["states"]
            coverage["transitions"] += ctl_ev["coverage"]["transitions"]
            coverage["traces_validated_against_impl"] += ctl_ev["coverage"]["traces_validated_against_impl"]
            coverage["distinct_nontrivial"] += ctl_ev["coverage"]["distinct_nontrivial"]
            nv_ctl = ctl_ev.get("violations", 0)
        except Exception:
            nv_ctl = 0
    else:
        nv_ctl = 0
    K.write_evidence(prop, tier, seed, "model_checking", coverage, plan["assumptions"], time.time() - t0, len(new_viol) + nv_ctl)
    if new_viol or extra_rc == 1:
        return 1
    if extra_rc == 2:
        return 2
    if missing and not replay:
        print("INCONCLUSIVE vacuous: facts never witnessed: %s" % missing)
        return 2
    return 0
