#!/bin/sh
# runs every seeded change against the check of its property (quick tier) and writes seeded/MATRIX.md ; nothing else may touch /repo meanwhile
cd /verif
out=seeded/MATRIX.md
echo "| seeded change | property | check exit | first report |" > $out
echo "|---|---|---|---|" >> $out
for d in seeded/*/; do
  m=$(basename $d)
  [ -f $d/patch.diff ] || continue
  p=$(python3 -c "import json;print(json.load(open('$d/meta.json'))['property'])")
  cd /repo && git apply /verif/$d/patch.diff 2>/dev/null || { echo "| $m | $p | patch does not apply | |" >> /verif/$out; cd /verif; continue; }
  cd /verif
  ./check $p --tier ${TIER:-quick} > /tmp/matrix.out 2>/dev/null; rc=$?
  first=$(grep -A1 -m1 '^VIOLATION' /tmp/matrix.out | tail -1 | sed 's/^ *what: //' | cut -c1-110)
  [ -z "$first" ] && first=$(grep -m1 INCONCLUSIVE /tmp/matrix.out | cut -c1-110)
  echo "| $m | $p | $rc | $first |" >> $out
  cd /repo && git checkout -- . && cd /verif
done
cat $out
