#!/bin/sh
# usage: mc.sh <family> [dir] : generate the model for a family and run TLC (development helper)
D=${2:-/tmp/mc}
mkdir -p $D && cd $D && cp /verif/spec/*.tla . && python3 /verif/tools/families.py $1 $D
rm -rf $D/meta
/usr/bin/time -f "%es %MKB" timeout ${MC_TIMEOUT:-1800} java -Xmx${MC_HEAP:-10g} -XX:+UseParallelGC -cp /opt/veriftools/tla/tla2tools.jar:/opt/veriftools/tla/CommunityModules-deps.jar tlc2.TLC -workers ${MC_WORKERS:-16} -metadir $D/meta -config MC.cfg MC.tla > mc.out 2>&1
rm -rf $D/meta
grep -v "^Parsing\|^Semantic\|^Linting" mc.out | tail -${MC_TAIL:-25} | cut -c1-600
