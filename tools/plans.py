"""Per-property plans for ./check: which model families are model-checked, which seeded histories are driven through the
real code, which facts must have been witnessed (non-vacuity) and what makes a recorded scan non-trivial for the property."""

COMMON_ASSUMPTIONS = [
    "Kubernetes is client-go's fake clientset (object tracker) with harness-owned listers; informer caches are represented by a harness snapshot (optionally lagging)",
    "AWS is a stateful simulation (harness/world/simaws.go): SetDesiredCapacity refused outside [min,max]; terminate-with-decrement refused below min; a terminated instance leaves the member list at once, or (linger) stays listed as Terminating, refusing further terminate calls, until the cloud drops it; AttachInstances <= 20 ids; TerminateInstances <= 1000 ids; instant fleets all-or-nothing",
    "time is virtual: one tick = 1 h, produced by moving every stored instant into the past; thresholds sit at half ticks, so > versus >= exactly at a threshold instant is not distinguished",
    "exhaustive model checking is for one node group with 2 (quick) or 2-3 (thorough) nodes and unit pods; larger worlds (up to 3 groups, ~10 nodes, mixed pod sizes) are sampled by seeded drivers and validated line by line",
    "TLC, the CommunityModules Json reader and the harness projection (harness/world) are trusted; the projection is exercised by ./check selftest",
]


def drives(quick, thorough):
    return dict(quick=quick, thorough=thorough)


def D(profile="mix", n=12, steps=70, procs=4, **kw):
    d = dict(profile=profile, n=n, steps=steps, procs=procs)
    d.update(kw)
    return d


def ctl(families_q, families_t, dq, dt, rule, required, nontrivial=None, emit_q=40, emit_t=60, max_cases_q=3000, max_cases_t=30000):
    return dict(kind="ctl", families=dict(quick=families_q, thorough=families_t), drives=drives(dq, dt), rule=rule,
                required_facts=dict(quick=required), nontrivial_facts=nontrivial, assumptions=COMMON_ASSUMPTIONS,
                emit_rate=dict(quick=emit_q, thorough=emit_t), max_state_cases=dict(quick=max_cases_q, thorough=max_cases_t),
                sim=dict(quick=dict(num=4, depth=30), thorough=dict(num=60, depth=50)))


PLANS = {
    "C01": ctl(["reap", "force", "crash", "overmax", "linger", "all_reap", "all_overmax"], ["reap", "reap@v2", "force", "crash", "overmax", "cordon", "linger", "all_reap", "all_overmax"],
               [D("reap", odd=True, faults=12, enum=10, twin=True), D("mix", lag=True, odd=True, twin=True), D("cycle", n=20, steps=90, groups=1, faults=3, dry=0, twin=True),
                D("overmax", n=24, steps=70, groups=1, faults=3, dry=0, twin=True),
                # real time (4 s ticks, really elapsing): time the controller remembers by itself ages too
                D("cycle", n=32, steps=36, procs=1, par=32, groups=1, faults=3, dry=0, realtime="4s")],
               [D("reap", n=60, steps=100, procs=8, odd=True, faults=12, enum=10, twin=True), D("mix", n=60, steps=100, procs=8, lag=True, odd=True, twin=True),
                D("cycle", n=80, steps=120, procs=8, groups=1, faults=3, dry=0, twin=True),
                D("overmax", n=120, steps=90, procs=8, groups=1, faults=3, dry=0, twin=True),
                D("cycle", n=64, steps=70, procs=2, par=32, groups=1, faults=3, dry=0, realtime="4s")],
               "cases: every (state, fault set) sampled from the TLC-explored graphs replayed as one real scan, plus scans of seeded random histories; "
               "non-trivial: a scan in which a node was removed under clause (a), (b) or (c), or a tainted / force-tainted / cordoned node was kept; distinct by (pre-state, fault set)",
               ["C01:crashed-mid-scan", "C01:removed-a", "C01:removed-b", "C01:removed-c", "C01:kept-soft-not-passed", "C01:kept-busy-before-hard",
                "C01:kept-unreadable-taint-time", "C01:kept-cordoned", "C01:kept-force-busy", "C01:restart-twin", "C01:over-max-with-busy-tainted-node"]),
    "C02": ctl(["lock"], ["lock", "lock@v2"],
               [D("lock", twin=True, faults=8), D("mix", twin=True), D("lock", n=32, steps=32, procs=1, par=32, groups=2, faults=5, realtime="4s"),
                D("lock", n=3, steps=45, procs=8, faults=20, refresh=True, groups=2)],
               [D("lock", n=60, steps=100, procs=8, twin=True, faults=8), D("mix", n=40, steps=100, procs=8, twin=True),
                D("lock", n=64, steps=70, procs=2, par=32, groups=2, faults=5, realtime="4s"),
                D("lock", n=10, steps=60, procs=12, faults=20, refresh=True, groups=2)],
               "cases: model states + seeded histories with a twin scan (same world, fresh controller) at every scan; non-trivial: a scan inside a cool-down "
               "(incl. below-minimum and removable nodes), or a scan after the cool-down in which the group is acted on again",
               ["C02:scan-in-cooldown", "C02:cooldown-below-min", "C02:cooldown-removable", "C02:acts-after-cooldown", "C02:twin-acts", "C02:refresh-failed-in-cooldown", "C02:cloud-call-took-a-tick"]),
    "C03": ctl(["updown", "auto", "conflict", "all_scale"], ["updown", "updown@v2", "auto", "conflict", "all_scale"],
               [D("down", faults=10), D("mix")],
               [D("down", n=60, steps=100, procs=8, faults=10), D("mix", n=60, steps=100, procs=8)],
               "non-trivial: a scan that tainted nodes (in particular down to exactly the minimum, or under auto-discovered bounds) or ran the below-minimum recovery",
               ["C03:tainted", "C03:tainted-down-to-min", "C03:tainted-auto", "C03:recovery"]),
    "C04": ctl(["updown", "auto", "asgedit", "forceup@bound", "all_scale"], ["updown", "updown@v2", "auto", "asgedit", "forceup", "forceup@bound", "all_scale"],
               [D("up", faults=8), D("mix")],
               [D("up", n=60, steps=100, procs=8, faults=8), D("mix", n=60, steps=100, procs=8)],
               "non-trivial: a scan that asked the cloud for capacity (with max_nodes below / above the cloud maximum, landing on the bound or not)",
               ["C04:request", "C04:request-on-bound", "C04:max_nodes-below-cloud-max", "C04:max_nodes-above-cloud-max"]),
    "C06": ctl(["updown", "all_scale"], ["updown", "updown@v3", "updown@v4", "conflict", "all_scale"],
               [D("down", faults=0, dry=0), D("up", faults=0, dry=0, fine=True), D("mix", faults=0, dry=0, fine=True), D("down", faults=40, dry=0, nodes=8), D("up", procs=2, faults=0, dry=0, fine=True, huge=True)],
               [D("down", n=60, steps=100, procs=6, faults=0, dry=0), D("up", n=40, steps=100, procs=4, faults=0, dry=0, fine=True, huge=True), D("up", n=60, steps=100, procs=6, faults=0, dry=0, fine=True), D("mix", n=60, steps=100, procs=6, faults=0, dry=0, fine=True), D("down", n=60, steps=100, procs=6, faults=40, dry=0, nodes=8)],
               "non-trivial: a fault-free scan of an unlocked, in-bounds group, classified by the exact band of max(cpu%, mem%) (incl. exactly on a threshold) and by the starve / max-age triggers",
               ["C06:band-fast", "C06:band-slow", "C06:band-none", "C06:band-up", "C06:on-threshold", "C06:starve", "C06:max-age", "C06:taint-band-with-failing-node-write", "C06:up-with-memory-total-beyond-int64-headroom"]),
    "C07": ctl(["updown", "forceup", "lag", "all_scale"], ["updown", "updown@v2", "forceup", "lag", "all_scale"],
               [D("up", faults=25, lag=True), D("mix", faults=20, lag=True)],
               [D("up", n=60, steps=100, procs=8, faults=25, lag=True), D("mix", n=60, steps=100, procs=8, faults=20, lag=True)],
               "non-trivial: a scale-up scan (band decision or below-minimum recovery), esp. with tainted nodes reused, capacity bought after reuse or after a same-scan removal, creation-time ties",
               ["C07:scale-up", "C07:reused", "C07:reused-and-bought", "C07:removed-then-bought", "C07:ties", "C07:stale-view-lists-a-vanished-tainted-node"]),
    "C08": ctl(["updown", "all_annotscale", "all_scale"], ["updown", "updown@v2", "lag", "conflict", "all_annotscale", "all_scale"],
               [D("down", faults=30, nodes=8), D("mix", faults=20)],
               [D("down", n=60, steps=100, procs=8, faults=30, nodes=8), D("mix", n=60, steps=100, procs=8, faults=20)],
               "non-trivial: a scan that tainted nodes, esp. leaving some untainted, with creation-time ties, with a failed write skipped",
               ["C08:tainted", "C08:tainted-some-left", "C08:ties", "C08:failed-write-skipped"]),
    "C09": ctl(["cordon", "all_reap"], ["cordon", "reap", "all_reap"],
               [D("reap", faults=8), D("mix")],
               [D("reap", n=60, steps=100, procs=8, faults=8), D("mix", n=60, steps=100, procs=8)],
               "non-trivial: a scan of a group with a cordoned node (fresh, tainted, grace-expired, force-tainted), incl. the capacity gauge read-back",
               ["C09:cordoned-present", "C09:cordoned-tainted", "C09:cordoned-expired", "C09:cordoned-force", "C09:capacity-checked"]),
    "C10": ctl(["annot", "all_annot", "all_annotscale"], ["annot", "force", "all_annot", "all_annotscale", "all_reap"],
               [D("reap", faults=5, twin=True), D("mix", twin=True), D("annotlate", n=10, steps=60, groups=1, faults=3, dry=0, twin=True),
                # real time: what the controller remembers about a node (and when) ages too
                D("annotlate", n=32, steps=26, procs=1, par=32, groups=1, faults=0, dry=0, realtime="4s")],
               [D("reap", n=60, steps=100, procs=8, faults=5, twin=True), D("mix", n=60, steps=100, procs=8, twin=True),
                D("annotlate", n=40, steps=80, procs=8, groups=1, faults=3, dry=0, twin=True),
                D("annotlate", n=64, steps=60, procs=2, par=32, groups=1, faults=0, dry=0, realtime="4s")],
               "non-trivial: a scan of a group with a protected node: kept although expired, others removed next to it, protected node tainted / untainted",
               ["C10:protected-present", "C10:protected-expired-kept", "C10:others-removed", "C10:protected-untainted", "C10:twin-without-annotation"]),
    "C11": ctl(["dry", "drybad"], ["dry", "drybad"],
               [D("mix", dry=60), D("reap", dry=60), D("up", dry=60)],
               [D("mix", n=50, steps=100, procs=6, dry=60), D("reap", n=50, steps=100, procs=6, dry=60), D("up", n=50, steps=100, procs=6, dry=60)],
               "non-trivial: a scan of a dry-mode group, by the branch the scan took (scale-up, scale-down, reaping, below-minimum, from zero) and switch (global / group)",
               ["C11:dry-up", "C11:dry-down", "C11:dry-idle", "C11:dry-taint", "C11:dry-untaint", "C11:dry-cloud-increase", "C11:group-flag", "C11:global-flag"]),
    "C15": ctl(["updown", "lag", "conflict"], ["updown", "reap", "lag", "conflict"],
               [D("mix", lag=True, faults=10), D("down", lag=True, faults=10)],
               [D("mix", n=60, steps=100, procs=8, lag=True, faults=10), D("down", n=60, steps=100, procs=8, lag=True, faults=10)],
               "non-trivial: a scan that wrote or removed the escalator taint (object diff of every PUT against the API copy), or met an already tainted node behind a lagging lister view",
               ["C15:taint-write", "C15:untaint-write", "C15:lagging-view-already-tainted", "C15:write-lost-a-race"]),
    "C20": ctl(["reap", "linger", "drybad", "zerocap"], ["reap", "updown", "linger", "lag", "drybad", "swap", "zerocap"],
               [D("mix", odd=True, lag=True, faults=45, enum=15), D("reap", odd=True, faults=45, enum=15), D("lock", odd=True, faults=30, enum=20)],
               [D("mix", n=60, steps=100, procs=8, odd=True, lag=True, faults=45, enum=15, enum2=True), D("reap", n=60, steps=100, procs=8, odd=True, faults=45, enum=15, enum2=True),
                D("lock", n=40, steps=100, procs=8, odd=True, faults=30, enum=20, enum2=True)],
               "non-trivial: a scan with injected API failures or odd objects (bad provider ids, zero / missing allocatable, unparsable / future taint values), incl. cloud look-ups after a cool-down",
               ["C20:faulty-scan", "C20:odd-provider-id", "C20:zero-or-missing-allocatable", "C20:unparsable-taint", "C20:future-taint",
                "C20:cloud-lookups", "C20:zero-capacity-error", "C20:fault-describe_instance"]),
}


# ------------------------------------------------------------------ provider-level and function families (tools/funcs.py)

AWS_ASSUMPTIONS = [
    "the real aws.NodeGroup / aws.CloudProvider code runs over a stateful simulation of the AutoScaling and EC2 APIs (harness/world/simaws.go) that records every call with its arguments",
    "AWS rules assumed: SetDesiredCapacity refused outside [min,max]; TerminateInstanceInAutoScalingGroup with decrement refused below min; AttachInstances <= 20 ids and raises desired capacity; TerminateInstances <= 1000 ids; instant fleets return all requested instances or none",
    "fleet instance ids are numbered consecutively by the simulation, so calls can be compared as integer ranges",
    "process exit (logrus Fatal) is intercepted through logrus' ExitFunc and treated as non-returning",
]


def aws_stage(quick_gen, thorough_gen, max_q=700, max_t=None):
    return dict(gen=dict(quick=quick_gen, thorough=thorough_gen), cmd="awsgroup", trace="TraceAws", max_cases=dict(quick=max_q, thorough=max_t), args=["-par", "64"])


GRID_Q = ("AwsGrid.tla", "AwsGrid.cfg", {})
GRID_T = ("AwsGrid.tla", "AwsGrid.cfg", {"Tier": '"thorough"'})
SMALL_Q = ("MCAws.tla", "MCAwsQuick.cfg", {})
SMALL_T = ("MCAws.tla", "MCAws.cfg", {})

PLANS["C17"] = dict(kind="func", stages=[aws_stage([SMALL_Q, GRID_Q], [SMALL_T, GRID_T], max_q=4000)],
                    rule="cases: every terminal behaviour of the small-step fleet model (size x fault point) and every point of the (min, max, desired, instances, d, "
                         "lifecycle, overrides, subnets) grid, each run through the real NodeGroup.IncreaseSize; non-trivial: every case (each is a distinct input)",
                    required_facts=["fleet", "set-desired", "rejected", "fleet-success", "fleet-attach-several-batches", "del-then-increase", "fleet-second-scale-up-other-delta"], assumptions=AWS_ASSUMPTIONS)
PLANS["C18"] = dict(kind="func", stages=[aws_stage([SMALL_Q, GRID_Q], [SMALL_T, GRID_T], max_q=900)],
                    rule="cases: every terminal behaviour of the small-step fleet model: fleet sizes across the 20 and 1000 batch limits x {never ready, k-th attach fails for every k, "
                         "any terminate call fails, create fails} x failure counter 0 / 2, run through the real provider; non-trivial: a case in which some step failed",
                    required_facts=["fleet-never-ready", "fleet-partially-ready-at-deadline", "fleet-attach-failed", "fleet-terminate-failed", "fleet-terminate-several-batches", "fleet-exit-after-3", "fleet-success"],
                    assumptions=AWS_ASSUMPTIONS)
PLANS["C18"]["also_ctl"] = ctl([], [], [D("up", n=4, steps=45, procs=6, fleet=True, faults=45, groups=2, dry=0), D("fleetfail", n=3, steps=40, procs=6, fleet=True, faults=70, groups=1, dry=0)],
                               [D("up", n=20, steps=60, procs=12, fleet=True, faults=45, groups=2, dry=0), D("fleetfail", n=12, steps=60, procs=12, fleet=True, faults=70, groups=1, dry=0)],
                               "see provider level", ["C18:ctl-fleet-accepted", "C18:ctl-fleet-failed-no-lock"])
PLANS["C18"]["also_ctl"]["sim"] = {}
PLANS["C18"]["assumptions"] = AWS_ASSUMPTIONS + COMMON_ASSUMPTIONS
PLANS["C19"] = dict(kind="func", stages=[aws_stage([GRID_Q], [GRID_T], max_q=1500)],
                    rule="provider level: every (min, desired, instance list, node list with members / foreign nodes at every position, failing terminate) of the grid run through the real "
                         "NodeGroup.DeleteNodes; controller level: order of cloud and Node deletes along histories and model states",
                    required_facts=["del-not-in-group", "del-all-terminated", "del-refused-whole", "del-terminate-failed"], assumptions=AWS_ASSUMPTIONS + COMMON_ASSUMPTIONS,
                    also_ctl=ctl(["force", "batches", "linger", "swap"], ["reap", "force", "batches", "linger", "swap"],
                                 [D("reap", faults=30, odd=True), D("mix", faults=25, lag=True), D("swap", n=16, steps=70, groups=2, faults=10, dry=0)],
                                 [D("reap", n=60, steps=100, procs=8, faults=30, odd=True), D("mix", n=60, steps=100, procs=8, faults=25, lag=True),
                                  D("swap", n=60, steps=100, procs=8, groups=2, faults=10, dry=0)],
                                 "see provider level", ["C19:node-deletes", "C19:terminate-failed", "C19:not-in-group", "C19:down-to-minimum"]))

FUNC_ASSUMPTIONS = [
    "the real functions are called through exported names or the build-tag-guarded wrappers in pkg/controller/verif_hooks.go; nothing is mocked",
    "TLC integers are 32 bit: quantities are expressed in units (100m CPU, 1 MiB) and every case is additionally run at a 37x larger scale, which keeps ratios exact; floating-point rounding itself is exercised only through the real code",
]


def calc_stage(fam, max_q=None, max_t=None):
    return dict(gen=dict(quick=[("CalcGrid.tla", "CalcGrid_%s.cfg" % fam, {"Seed": "@SEED@"})],
                         thorough=[("CalcGrid.tla", "CalcGrid_%s.cfg" % fam, {"Tier": '"thorough"', "Seed": "@SEED@"})]),
                cmd="calc", trace="TraceCalc", max_cases=dict(quick=max_q, thorough=max_t), seeded=True)


PLANS["C05"] = dict(kind="func", stages=[calc_stage("delta", max_t=150000)],
                    rule="cases: every point of the (nodes, node size, threshold, cpu request, memory request) grid, each at two magnitudes, through the real calcPercentUsage + calcScaleUpDelta "
                         "as the controller chains them; controller level: scale-up scans of histories; non-trivial: a point above the threshold or a scale-up from zero",
                    required_facts=["C05:above-threshold", "C05:exactly-on-threshold", "C05:memory-bound", "C05:cpu-bound", "C05:from-zero-cached", "C05:from-zero-no-cache", "C05:large-magnitude", "C05:memory-total-beyond-int64-headroom"],
                    assumptions=FUNC_ASSUMPTIONS + COMMON_ASSUMPTIONS,
                    also_ctl=ctl(["updown", "agedup"], ["updown", "agedup"],
                                 [D("up", faults=0, dry=0, fine=True), D("mix", faults=0, dry=0, fine=True), D("fromzero", n=12, steps=60, groups=1, faults=0, dry=0)],
                                 [D("up", n=60, steps=100, procs=8, faults=0, dry=0, fine=True), D("mix", n=60, steps=100, procs=8, faults=0, dry=0, fine=True),
                                  D("fromzero", n=60, steps=70, procs=8, groups=1, faults=0, dry=0)],
                                 "see function level", ["C05:scale-up", "C05:ctl-from-zero", "C05:scale-up-with-trigger"]))
PLANS["C13"] = dict(kind="func", stages=[calc_stage("pods"), calc_stage("nodes"), calc_stage("delta", max_q=1500, max_t=30000)],
                    rule="cases: every pod shape of the universe (0-3 containers, 0-2 init containers, overhead, missing requests, quantities in mixed notations) singly and in sampled bags listed in 4 orders; "
                         "node allocatable lists in 4 orders; the utilisation grid; controller level: request / capacity / percent gauges after every scan of the histories",
                    required_facts=["C13:pods", "C13:pods-permuted", "C13:init-dominates", "C13:overhead", "C13:nodes", "C13:nodes-permuted", "C13:percent"],
                    assumptions=FUNC_ASSUMPTIONS + COMMON_ASSUMPTIONS,
                    also_ctl=ctl(["updown"], ["updown"],
                                 [D("mix", faults=5, fine=True), D("up", faults=5)],
                                 [D("mix", n=60, steps=100, procs=8, faults=5, fine=True), D("up", n=60, steps=100, procs=8, faults=5)],
                                 "see function level", ["C13:totals-checked", "C13:percent-checked", "C13:several-pods"]))

PLANS["C14"] = dict(kind="func", stages=[dict(gen=dict(quick=[("AttrGrid.tla", "AttrGrid.cfg", {})], thorough=[("AttrGrid.tla", "AttrGrid.cfg", {"Tier": '"thorough"'})]),
                                              cmd="attrib", trace="TraceAttr", max_cases=dict(quick=None, thorough=120000))],
                    rule="cases: every pod shape of the universe (nodeSelector absent / other key / other value / match x affinity nil / empty / partial / 1-2 terms of 1-2 expressions over "
                         "{In, NotIn, Exists, ...} x owner kinds x static annotation x pod (anti-)affinity) and every node label map, through the real filter constructors and the real filtered listers; "
                         "every case is a distinct input",
                    required_facts=["C14:in-group", "C14:not-in-group", "C14:in-group-by-affinity", "C14:in-default", "C14:daemonset", "C14:two-terms", "C14:two-expressions", "C14:node"],
                    assumptions=FUNC_ASSUMPTIONS + ["shapes the statement does not decide for the default group (an affinity object without any rule) admit either verdict"])

PLANS["C16"] = dict(kind="func", stages=[dict(gen=dict(quick=[("ConfigGrid.tla", "ConfigGrid.cfg", {})], thorough=[("ConfigGrid.tla", "ConfigGrid.cfg", {"Tier": '"thorough"'})]),
                                              cmd="config", trace="TraceConfig")],
                    rule="cases: nine option groups (names, thresholds, min/max, rates, grace periods, cool-down, effect, lifecycle, max age), each enumerated exhaustively over its value set with the "
                         "others at a valid baseline (quick) and every pair of groups (thorough); each configuration is written as YAML and as JSON, decoded by the real UnmarshalNodeGroupOptions and "
                         "validated by the real ValidateNodeGroup; plus one case per key of the documented example; every case is a distinct input",
                    required_facts=["C16:accepted", "C16:rejected", "C16:auto-discover", "C16:documented-key", "C16:rejected-thresholds", "C16:rejected-removal-rates", "C16:rejected-grace-periods",
                                    "C16:rejected-cool-down", "C16:rejected-min-max", "C16:rejected-taint-effect", "C16:rejected-lifecycle", "C16:rejected-max-node-age"],
                    assumptions=FUNC_ASSUMPTIONS + ["the decode half is a differential test (YAML vs JSON vs intent) driven by TLC-generated cases; documented keys are those of the example block of docs/configuration/nodegroup.md"])

PLANS["C12"] = ctl(["multi", "multipin"], ["multi", "multipin"],
                   [D("mix", groups=3, faults=25), D("reap", groups=3, faults=25, odd=True)],
                   [D("mix", n=60, steps=100, procs=8, groups=3, faults=25), D("reap", n=60, steps=100, procs=8, groups=3, faults=25, odd=True)],
                   "model: random behaviours (TLC simulation) of the two-group model incl. the group named default, with the isolation invariant (blanking or dry-flipping one group "
                   "leaves the other group's outcomes unchanged) on every visited state; real code: scans of 2-3 group histories (targets of every call; later groups processed after a failure) "
                   "and twin runs of each history without the environment events of one group; non-trivial: a multi-group scan / a compared twin scan",
                   ["C12:multi-group", "C12:failure-before-last-group", "C12:default-group", "C12:twin-compared", "C12:twin-other-group-acts"])
PLANS["C12"]["emit_rate"] = dict(quick=3, thorough=3)
PLANS["C12"]["iso_drives"] = dict(quick=[D("mix", n=14, steps=80, procs=4)], thorough=[D("mix", n=60, steps=100, procs=8), D("reap", n=40, steps=100, procs=8)])
PLANS["C11"]["families"] = dict(quick=["dry", "drybad", "multidry", "all_dry"], thorough=["dry", "drybad", "multidry", "all_dry"])

LOOP_STAGE = dict(gen=dict(quick=[("Loop.tla", "Loop.cfg", {})], thorough=[("Loop.tla", "Loop.cfg", {"MaxScan": "5"})]), cmd="loop", trace="TraceLoop",
                  max_cases=dict(quick=60, thorough=250))
PLANS["C19"]["stages"].append(LOOP_STAGE)
PLANS["C19"]["required_facts"] += ["loop-fatal-exit", "loop-stopped", "loop-non-fatal-failure-survived"]
PLANS["C20"] = dict(kind="func", stages=[LOOP_STAGE], also_ctl=PLANS["C20"], rule=PLANS["C20"]["rule"] + "; plus the controller's own RunForever loop driven over a two-group world "
                    "(fatal condition / non-fatal failure / stop signal at every scan index)", required_facts=["loop-fatal-exit", "loop-stopped", "loop-non-fatal-failure-survived"],
                    assumptions=COMMON_ASSUMPTIONS)

# hidden controller memory about annotations only shows along one controller lifetime: more TLC-generated behaviours for C10
PLANS["C19"]["also_ctl"]["sim"] = dict(quick=dict(num=12, depth=40), thorough=dict(num=120, depth=60))   # provider memory across scans
PLANS["C10"]["sim"] = dict(quick=dict(num=15, depth=45), thorough=dict(num=150, depth=60))
PLANS["C03"]["proofs"] = True   # TaintClampKeepsMinimum etc. (ArithLemmas.tla, TLAPS) for unbounded node counts
PLANS["C04"]["proofs"] = True   # CloudTargetWithinBound, ClampLandsOnBound, NoHeadroomNoRequest
