#!/bin/sh
# rebuilds the harness binary from /repo's working tree into $1 (default /tmp/hb)
set -e
export GOFLAGS=-mod=mod GOPROXY=off GOSUMDB=off GOTOOLCHAIN=local
D=${1:-/tmp/hb}
mkdir -p $D
cd /verif/harness && ./gen_gomod.sh && go build -tags verif -o $D/harness ./cmd/harness
