#!/usr/bin/env python3
"""showline.py trace.ndjson N [group] : condensed view of trace line N (1-based)"""
import json,sys
def node(o):
    t=o['taint']
    ts = '-' if not t['has'] else ('bad' if not t['ok'] else 't@%d'%t['at'])
    return 'c%d %s%s%s%s pid=%s %d/%d'%(o['created'],'CORD ' if o['cordoned'] else '','FORCE ' if o['force'] else '','NODEL ' if o['nodel'] else '',ts,o['pid'],o['cpu'],o['mem'])
def show(W,tag,only=None):
    print(tag,'now',W['now'],'dryAll',W['dryAll'],'alive',W['alive'],'gorder',W['gorder'])
    for g,G in W['groups'].items():
        if only and g!=only: continue
        print('  [%s] cfg'%g,{k:v for k,v in G['cfg'].items()})
        print('      order',G['order'],'lag',G['lag'])
        for n,o in G['api'].items(): print('      api ',n,node(o))
        if G['lag']:
            for n,o in G['view'].items(): print('      view',n,node(o))
        print('      pods',[(p['cpu'],p['mem'],p['node'],'P' if p['pending'] else 'R','S' if p['sched'] else '-') for p in G['pods']])
        print('      asg',G['asg'],'\n      pc ',G['pc'])
        print('      ctl',G['ctl'],'accepted',G['accepted'],'tries',G['tries'])
lines=open(sys.argv[1]).read().splitlines()
d=json.loads(lines[int(sys.argv[2])-1])
only=sys.argv[3] if len(sys.argv)>3 else None
print('src',d['src'],'id',d['id'],'faults',d['faults'],'ret',d['ret'],'panic',d['panic'],d.get('panicMsg'),'hang',d['hang'],'exit',d['exit'])
show(d['pre'],'PRE',only)
print('CALLS')
for c in d['calls']:
    if only and c['g'] not in (only,''): continue
    print('   ',c)
print('lookups',d['lookups'],'gauges',d.get('gauges'),'twin',d.get('twin'))
show(d['post'],'POST',only)
