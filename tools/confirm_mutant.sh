#!/bin/sh
# usage: confirm_mutant.sh <dir with patch.diff and demo_test.go> : confirms, in a scratch worktree of /repo, that the change
# compiles, passes the existing tests, and that the demonstration fails with it and passes without it. Prints one JSON line.
D=$1
export GOFLAGS=-mod=mod GOPROXY=off GOSUMDB=off GOTOOLCHAIN=local
WT=$(mktemp -d /tmp/confirm-XXXX)
git -C /repo worktree add -q --detach $WT HEAD || exit 3
cd $WT
place=$(head -1 $D/demo_test.go | sed -n 's/.*place at \([^ ]*\).*/\1/p')
[ -z "$place" ] && place=$(grep -m1 -o 'pkg/[a-z/0-9_]*_test.go' $D/demo_test.go)
git apply $D/patch.diff; applied=$?
go build ./... >/dev/null 2>&1; build=$?
go test -vet=off -count=1 ./... > $WT/suite.log 2>&1; suite=$?
cp $D/demo_test.go $WT/$place
pkgdir=$(dirname $place)
go test -vet=off -count=1 ./$pkgdir/ > $WT/demo_with.log 2>&1; with=$?
git apply -R $D/patch.diff
go test -vet=off -count=1 ./$pkgdir/ > $WT/demo_without.log 2>&1; without=$?
echo "{\"dir\":\"$D\",\"place\":\"$place\",\"applied\":$applied,\"build\":$build,\"suite_with_change\":$suite,\"demo_with_change\":$with,\"demo_without_change\":$without}"
cd /; git -C /repo worktree remove --force $WT
