#!/bin/sh
# usage: ingest.sh <agent worktree with OUT/> <seeded name, e.g. C02-agent7> <property>
# copies the deliverables of an independent sub-agent to seeded/<name>/, confirms them with confirm_mutant.sh (scratch worktree of
# /repo: applies, builds, suite passes, demo fails with / passes without) and writes meta.json; keeps nothing if not confirmed.
W=$1; N=$2; P=$3
V=$(cd "$(dirname "$0")/.." && pwd)
D=$V/seeded/$N
[ -f $W/OUT/patch.diff ] && [ -f $W/OUT/demo_test.go ] || { echo "no deliverables in $W/OUT"; exit 3; }
mkdir -p $D; cp $W/OUT/patch.diff $W/OUT/demo_test.go $D/; cp $W/OUT/meta.txt $D/meta.txt 2>/dev/null
r=$($V/tools/confirm_mutant.sh $D | tail -1); echo "$r"
python3 - "$D" "$P" "$r" <<'PY'
import json,sys,os,shutil
d,p,r=sys.argv[1:4]
c=json.loads(r)
ok=c["applied"]==0 and c["build"]==0 and c["suite_with_change"]==0 and c["demo_with_change"]!=0 and c["demo_without_change"]==0
if not ok:
    print("NOT CONFIRMED", c); shutil.rmtree(d); sys.exit(1)
txt=open(os.path.join(d,"meta.txt")).read().strip() if os.path.exists(os.path.join(d,"meta.txt")) else ""
json.dump({"property":p,"source":"independent sub-agent given only the property text (round 8)","change":txt,
 "needs_to_manifest":"see change text","confirmed":{"how":"tools/confirm_mutant.sh in a scratch worktree of /repo","applies":True,"builds":True,
 "existing_suite_passes":True,"demo_fails_with_change":True,"demo_passes_without_change":True,"demo_location":c["place"]},
 "checks_run":"tools/partrial.sh %s quick (VERIF_SEED=1)"%os.path.basename(d),"result":"pending"},open(os.path.join(d,"meta.json"),"w"),indent=1)
os.remove(os.path.join(d,"meta.txt")) if os.path.exists(os.path.join(d,"meta.txt")) else None
print("CONFIRMED")
PY
