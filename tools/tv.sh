#!/bin/sh
# usage: tv.sh <dir-with-trace.ndjson> : copies the specs next to the trace and runs the trace specification
set -e
D=$1
cp /verif/spec/*.tla /verif/spec/TraceEscalator.cfg $D/
cd $D
rm -rf meta
timeout ${TV_TIMEOUT:-600} tlc -workers 1 -metadir $D/meta TraceEscalator.tla > tlc.out 2>&1 || true
rm -rf meta
grep -v "^Parsing\|^Semantic\|^Linting" tlc.out > tlc.short || true
