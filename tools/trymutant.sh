#!/bin/sh
# usage: trymutant.sh <patch.diff> <ID> [ID...] : apply a patch to /repo, run the checks, restore /repo
P=$1; shift
cd /repo && git apply "$P" || { echo "patch does not apply"; exit 3; }
for id in "$@"; do
  echo "=== check $id (mutant $P)"
  ( cd /verif && ./check $id --tier ${TIER:-quick} > /tmp/trymutant.out 2>/dev/null; echo "exit=$?"; head -12 /tmp/trymutant.out )
done
cd /repo && git checkout -- . && git status --short | grep -v '^??' | head -3
