#!/usr/bin/env python3
"""Summarise the output of a trace validation run (tlc.out): divergences, violations, branch coverage."""
import json,sys,collections
def parse(path):
    recs=[]
    for l in open(path, errors='replace'):
        l=l.strip()
        if l.startswith('"{'):
            try: recs.append(json.loads(json.loads(l)))
            except Exception as e: pass
    return recs
if __name__=='__main__':
    recs=parse(sys.argv[1])
    div=[r for r in recs if r['kind']=='DIVERGENCE']
    vio=[r for r in recs if r['kind']=='VIOLATIONS']
    lines=[r for r in recs if r['kind']=='LINE']
    done=[r for r in recs if r['kind']=='DONE']
    br=collections.Counter(b for r in lines for b in r['branches'].values())
    print('lines',len(lines),'divergences',len(div),'violating lines',len(vio),'done',done)
    print('branches',dict(br))
    what=collections.Counter(tuple(sorted(r['what'])) for r in div)
    print('divergence kinds',dict(what))
    for r in div[:int(sys.argv[2]) if len(sys.argv)>2 else 3]:
        print(json.dumps({k:r[k] for k in ('line','src','id','what','branches')}))
    vk=collections.Counter(tuple(v) if isinstance(v,list) else v for r in vio for v in r['v'])
    for k,c in vk.most_common(40): print('VIOL',c,k)
    errs=[l for l in open(sys.argv[1],errors='replace') if 'Error' in l or 'error' in l]
    if errs: print('TLC errors:',errs[:5])
