#!/bin/sh
# dev-copy variant: runs from the directory of this script's parent
m=$1; TIER=${2:-quick}; PROP=$3
V=$(cd "$(dirname "$0")/.." && pwd)
cd $V
d=seeded/$m
p=${PROP:-$(python3 -c "import json;print(json.load(open('$d/meta.json'))['property'])")}
WT=$(mktemp -d /tmp/trial-XXXX)
git -C /repo worktree add -q --detach $WT/repo HEAD || exit 3
( cd $WT/repo && git apply $V/$d/patch.diff ) || { echo "| $m | $p | patch does not apply | |"; git -C /repo worktree remove --force $WT/repo; exit 3; }
mkdir -p $WT/out
VERIF_REPO=$WT/repo VERIF_OUT=$WT/out ./check $p --tier $TIER > $WT/check.out 2>/dev/null; rc=$?
first=$(grep -A1 -m1 '^VIOLATION' $WT/check.out | tail -1 | sed 's/^ *what: //' | cut -c1-110)
[ -z "$first" ] && first=$(grep -m1 INCONCLUSIVE $WT/check.out | cut -c1-110)
div=$(python3 -c "import json;e=json.load(open('$WT/out/evidence/$p.json'))['coverage'];print(e.get('divergences',0)+e.get('controller_level',{}).get('divergences',0))" 2>/dev/null)
echo "| $m | $p | $rc | $first | div=$div |"
git -C /repo worktree remove --force $WT/repo; rm -rf $WT
