package main

import (
	"bufio"
	"encoding/json"
	"flag"
	"fmt"
	"os"
	"sort"
	"sync"
	"time"

	"github.com/atlassian/escalator/pkg/cloudprovider"
	awsp "github.com/atlassian/escalator/pkg/cloudprovider/aws"
	log "github.com/sirupsen/logrus"
	v1 "k8s.io/api/core/v1"
	metav1 "k8s.io/apimachinery/pkg/apis/meta/v1"

	"verif/harness/world"
)

// AwsCase is one provider-level case: a call of the real NodeGroup.IncreaseSize / DeleteNodes over the simulated AWS.
type AwsCase struct {
	Src  string `json:"src"`
	Kind string `json:"kind"` // inc | del
	// ASG (cache = real at the start of the call)
	Min     int `json:"min"`
	Max     int `json:"max"`
	Desired int `json:"desired"`
	NMemb   int `json:"nmemb"` // members are m1..m<nmemb>
	// inc
	D         int      `json:"d"`
	Fleet     bool     `json:"fleet"`
	Lifecycle string   `json:"lifecycle"`
	Types     int      `json:"types"`   // number of instance type overrides
	Subnets   int      `json:"subnets"` // number of subnets of the ASG
	Tagging   bool     `json:"tagging"`
	FailDescribe bool  `json:"failDescribe"`
	FailCreate   bool  `json:"failCreate"`
	NoCapacity   bool  `json:"noCapacity"`
	FailSet      bool  `json:"failSet"`
	FailAttach   int   `json:"failAttach"` // k-th AttachInstances call fails (0 = none)
	FailTerm     []int `json:"failTerm"`   // these TerminateInstances calls fail
	FailNodes    []string `json:"failNodes"` // del: terminating these instances fails
	Never     bool     `json:"never"`    // not every instance becomes ready before the deadline
	ReadyK    int      `json:"readyK"`   // never: this many of the new instances (the first ones) do report running
	PreFail   int      `json:"prefail"`  // consecutive failed fleet attempts before this call (never-ready)
	PreInc    int      `json:"preInc"`   // an earlier successful IncreaseSize(preInc) on the same provider object, then a refresh
	// del: the nodes handed to DeleteNodes, by name; a name outside m1..m<nmemb> is a foreign node
	List []string `json:"list"`
	DelRet string `json:"delRet"` // delinc: what DeleteNodes returned (filled in by the harness)
}

func (c AwsCase) faults() []world.Fault {
	var f []world.Fault
	if c.FailDescribe {
		f = append(f, world.Fault{Op: "describe_asgs", T: "all"})
	}
	if c.FailCreate {
		f = append(f, world.Fault{Op: "create_fleet", T: "all"})
	}
	if c.NoCapacity {
		f = append(f, world.Fault{Op: "create_fleet_none", T: "all"})
	}
	if c.FailSet {
		f = append(f, world.Fault{Op: "set_desired", T: "all"})
	}
	if c.FailAttach > 0 {
		f = append(f, world.Fault{Op: "attach", T: fmt.Sprintf("#%d", c.FailAttach)})
	}
	for _, k := range c.FailTerm {
		f = append(f, world.Fault{Op: "terminate_instances", T: fmt.Sprintf("#%d", k)})
	}
	for _, n := range c.FailNodes {
		f = append(f, world.Fault{Op: "terminate", T: n})
	}
	return f
}

type AwsObs struct {
	Ev    string       `json:"ev"`
	Src   string       `json:"src"`
	Case  AwsCase      `json:"case"`
	Calls []world.Call `json:"calls"`
	Ret   string       `json:"ret"` // nil | error | notingroup
	Exit  bool         `json:"exit"`
	Panic bool         `json:"panic"`
	Post  world.Asg    `json:"post"`
	Tries int          `json:"tries"`
}

type exitPanic struct{}

func runAwsCase(c AwsCase) AwsObs {
	j := world.NewJournal()
	j.CurG = func() string { return "g" }
	a, e := world.NewSimAWS(j)
	asg := &world.SimASG{Group: "g", Name: world.AsgName("g"), Min: int64(c.Min), Max: int64(c.Max), Desired: int64(c.Desired)}
	for i := 1; i <= c.NMemb; i++ {
		asg.Instances = append(asg.Instances, world.SimInst{ID: fmt.Sprintf("m%d", i), Launch: time.Now()})
	}
	for i := 0; i < c.Subnets; i++ {
		if i > 0 {
			asg.Subnets += ","
		}
		asg.Subnets += fmt.Sprintf("subnet-%d", i)
	}
	a.Asgs[asg.Name] = asg
	cfg := cloudprovider.NodeGroupConfig{Name: "g", GroupID: asg.Name}
	if c.Fleet {
		cfg.AWSConfig.LaunchTemplateID = "lt-1"
		cfg.AWSConfig.LaunchTemplateVersion = "7"
		cfg.AWSConfig.FleetInstanceReadyTimeout = 1500 * time.Millisecond
		cfg.AWSConfig.Lifecycle = c.Lifecycle
		cfg.AWSConfig.ResourceTagging = c.Tagging
		for i := 0; i < c.Types; i++ {
			cfg.AWSConfig.InstanceTypeOverrides = append(cfg.AWSConfig.InstanceTypeOverrides, fmt.Sprintf("type%d", i))
		}
	}
	obs := AwsObs{Ev: "aws", Src: c.Src, Case: c, Ret: "nil", Calls: []world.Call{}}
	p, err := awsp.VerifNewCloudProvider(a, e, cfg)
	if err != nil {
		obs.Ret = "error"
		return obs
	}
	ng, _ := p.GetNodeGroup(asg.Name)
	call := func(f func() error) {
		defer func() {
			if r := recover(); r != nil {
				if _, ok := r.(exitPanic); ok {
					obs.Exit = true
				} else {
					obs.Panic = true
				}
				obs.Ret = "error"
			}
		}()
		if err := f(); err != nil {
			if _, ok := err.(*cloudprovider.NodeNotInNodeGroup); ok {
				obs.Ret = "notingroup"
			} else {
				obs.Ret = "error"
			}
		}
	}
	// bring the consecutive-failure counter up
	for i := 0; i < c.PreFail; i++ {
		a.NeverReady = true
		cfgTimeout(ng, 10*time.Millisecond)
		func() {
			defer func() { recover() }()
			_ = ng.IncreaseSize(1)
		}()
	}
	if c.PreInc > 0 {
		a.NeverReady = false
		cfgTimeout(ng, 1500*time.Millisecond)
		func() {
			defer func() { recover() }()
			_ = ng.IncreaseSize(int64(c.PreInc))
		}()
	}
	// refresh the cache (pre-failures may have changed nothing, but keep cache = real)
	_ = p.Refresh()
	a.NeverReady = c.Never
	a.ReadyK = 0
	if c.Never {
		a.ReadyK = c.ReadyK
	}
	if c.Never && c.ReadyK > 0 {
		cfgTimeout(ng, 1500*time.Millisecond) // long enough for one poll (the code polls every second) to see the partial readiness
	} else if c.Never {
		cfgTimeout(ng, 10*time.Millisecond)
	} else {
		cfgTimeout(ng, 1500*time.Millisecond)
	}
	j.Begin(c.faults())
	switch c.Kind {
	case "inc":
		call(func() error { return ng.IncreaseSize(int64(c.D)) })
	case "delinc":
		var nodes []*v1.Node
		for _, n := range c.List {
			nodes = append(nodes, &v1.Node{ObjectMeta: metav1.ObjectMeta{Name: n}, Spec: v1.NodeSpec{ProviderID: "aws:///az1/" + n}})
		}
		call(func() error { return ng.DeleteNodes(nodes...) })
		obs.Case.DelRet, obs.Ret = obs.Ret, "nil"
		j.SetFaults(nil)
		call(func() error { return ng.IncreaseSize(int64(c.D)) })
	case "del":
		var nodes []*v1.Node
		for _, n := range c.List {
			nodes = append(nodes, &v1.Node{ObjectMeta: metav1.ObjectMeta{Name: n}, Spec: v1.NodeSpec{ProviderID: "aws:///az1/" + n}})
		}
		call(func() error { return ng.DeleteNodes(nodes...) })
	}
	calls := j.Snapshot()
	// collapse consecutive readiness polls (their number depends on timing)
	for _, cl := range calls {
		if cl.Op == "status" && len(obs.Calls) > 0 && obs.Calls[len(obs.Calls)-1].Op == "status" {
			continue
		}
		obs.Calls = append(obs.Calls, cl)
	}
	obs.Post = world.Asg{Min: int(asg.Min), Max: int(asg.Max), Desired: int(asg.Desired), Members: []string{}, Terminating: []string{}}
	for _, i := range asg.Instances {
		obs.Post.Members = append(obs.Post.Members, i.ID)
	}
	sort.Strings(obs.Post.Members)
	obs.Tries = p.VerifTerminateTries(asg.Name)
	return obs
}

// cfgTimeout adjusts the fleet readiness timeout of the node group's config through the provider's own config pointer.
func cfgTimeout(ng cloudprovider.NodeGroup, d time.Duration) {
	if g, ok := ng.(*awsp.NodeGroup); ok {
		g.VerifSetFleetTimeout(d)
	}
}

func cmdAwsGroup(fs *flag.FlagSet, args []string) {
	in := fs.String("in", "", "ndjson of cases")
	trace := fs.String("trace", "trace.ndjson", "output")
	par := fs.Int("par", 32, "parallel cases")
	fs.Parse(args)
	log.StandardLogger().ExitFunc = func(int) { panic(exitPanic{}) }
	f, err := os.Open(*in)
	if err != nil {
		fatal(err)
	}
	defer f.Close()
	var cases []AwsCase
	sc := bufio.NewScanner(f)
	sc.Buffer(make([]byte, 1<<20), 1<<26)
	for sc.Scan() {
		var c AwsCase
		if err := json.Unmarshal(sc.Bytes(), &c); err != nil {
			fatal("bad case:", err)
		}
		if c.FailTerm == nil {
			c.FailTerm = []int{}
		}
		if c.FailNodes == nil {
			c.FailNodes = []string{}
		}
		if c.List == nil {
			c.List = []string{}
		}
		cases = append(cases, c)
	}
	res := make([]AwsObs, len(cases))
	var wg sync.WaitGroup
	sem := make(chan struct{}, *par)
	for i := range cases {
		wg.Add(1)
		sem <- struct{}{}
		go func(i int) {
			defer wg.Done()
			defer func() { <-sem }()
			res[i] = runAwsCase(cases[i])
		}(i)
	}
	wg.Wait()
	tr := newOut(*trace)
	defer tr.close()
	for _, r := range res {
		tr.emit(r)
	}
	fmt.Printf("{\"cases\":%d}\n", len(cases))
}

func init() { extraCmds["awsgroup"] = cmdAwsGroup }
