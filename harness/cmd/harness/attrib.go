package main

import (
	"bufio"
	"encoding/json"
	"flag"
	"fmt"
	"os"

	"github.com/atlassian/escalator/pkg/controller"
	v1 "k8s.io/api/core/v1"
	metav1 "k8s.io/apimachinery/pkg/apis/meta/v1"
	"k8s.io/apimachinery/pkg/labels"
	listerv1 "k8s.io/client-go/listers/core/v1"
)

type AttrExpr struct {
	K    string   `json:"k"`
	Op   string   `json:"op"`
	Vals []string `json:"vals"`
}

// AttrCase is one pod or node shape of spec/Attribution.tla. The group's label is key "key" = "value".
type AttrCase struct {
	Src    string       `json:"src"`
	Stage  int          `json:"stage"`
	Kind   string       `json:"kind"` // pod | node
	Sel    string       `json:"sel"`
	Aff    string       `json:"aff"`
	Terms  [][]AttrExpr `json:"terms"`
	PodAff string       `json:"podaff"`
	Owner  string       `json:"owner"`
	Static string       `json:"static"`
	Key    string       `json:"key"`
	Other  string       `json:"other"`
	NoLab  bool         `json:"nolabels"`
}

type AttrObs struct {
	Ev   string   `json:"ev"`
	Src  string   `json:"src"`
	Case AttrCase `json:"case"`
	// verdicts of the real code: filter function and filtered lister, for the group and for the group named default
	GroupFn   bool `json:"groupFn"`
	GroupLs   bool `json:"groupLs"`
	DefaultFn bool `json:"defaultFn"`
	DefaultLs bool `json:"defaultLs"`
	NodeFn    bool `json:"nodeFn"`
	NodeLs    bool `json:"nodeLs"`
	NodeDefLs bool `json:"nodeDefLs"`
}

const gKey, gVal = "customer-key", "customer-value"

func lbl(s string) string {
	switch s {
	case "key":
		return gKey
	case "value":
		return gVal
	case "other":
		return "something-else"
	}
	return s
}

func mkAttrPod(c AttrCase, name string) *v1.Pod {
	p := &v1.Pod{ObjectMeta: metav1.ObjectMeta{Name: name, Namespace: "ns"}}
	switch c.Sel {
	case "otherkey":
		p.Spec.NodeSelector = map[string]string{lbl("other"): gVal}
	case "othervalue":
		p.Spec.NodeSelector = map[string]string{gKey: lbl("other")}
	case "match":
		p.Spec.NodeSelector = map[string]string{gKey: gVal}
	case "match+other":
		p.Spec.NodeSelector = map[string]string{gKey: gVal, lbl("other"): "x"}
	}
	switch c.Aff {
	case "empty":
		p.Spec.Affinity = &v1.Affinity{}
	case "na-noreq":
		p.Spec.Affinity = &v1.Affinity{NodeAffinity: &v1.NodeAffinity{}}
	case "na-noterms":
		p.Spec.Affinity = &v1.Affinity{NodeAffinity: &v1.NodeAffinity{RequiredDuringSchedulingIgnoredDuringExecution: &v1.NodeSelector{}}}
	case "terms":
		ns := &v1.NodeSelector{}
		for _, t := range c.Terms {
			var term v1.NodeSelectorTerm
			for _, e := range t {
				var vals []string
				for _, v := range e.Vals {
					vals = append(vals, lbl(v))
				}
				term.MatchExpressions = append(term.MatchExpressions, v1.NodeSelectorRequirement{Key: lbl(e.K), Operator: v1.NodeSelectorOperator(e.Op), Values: vals})
			}
			ns.NodeSelectorTerms = append(ns.NodeSelectorTerms, term)
		}
		p.Spec.Affinity = &v1.Affinity{NodeAffinity: &v1.NodeAffinity{RequiredDuringSchedulingIgnoredDuringExecution: ns,
			PreferredDuringSchedulingIgnoredDuringExecution: []v1.PreferredSchedulingTerm{{Weight: 1, Preference: v1.NodeSelectorTerm{
				MatchExpressions: []v1.NodeSelectorRequirement{{Key: gKey, Operator: v1.NodeSelectorOpIn, Values: []string{gVal}}}}}}}}
	}
	if c.PodAff != "none" {
		if p.Spec.Affinity == nil {
			p.Spec.Affinity = &v1.Affinity{}
		}
		if c.PodAff == "affinity" {
			p.Spec.Affinity.PodAffinity = &v1.PodAffinity{}
		} else {
			p.Spec.Affinity.PodAntiAffinity = &v1.PodAntiAffinity{}
		}
	}
	switch c.Owner {
	case "ReplicaSet":
		p.OwnerReferences = []metav1.OwnerReference{{Kind: "ReplicaSet", Name: "rs"}}
	case "DaemonSet":
		p.OwnerReferences = []metav1.OwnerReference{{Kind: "DaemonSet", Name: "ds"}}
	case "both":
		p.OwnerReferences = []metav1.OwnerReference{{Kind: "ReplicaSet", Name: "rs"}, {Kind: "DaemonSet", Name: "ds"}}
	}
	switch c.Static {
	case "file":
		p.Annotations = map[string]string{"kubernetes.io/config.source": "file"}
	case "other":
		p.Annotations = map[string]string{"kubernetes.io/config.source": "api"}
	}
	return p
}

func mkAttrNode(c AttrCase, name string) *v1.Node {
	n := &v1.Node{ObjectMeta: metav1.ObjectMeta{Name: name}}
	if c.NoLab {
		return n
	}
	n.Labels = map[string]string{"zone": "a"}
	if c.Key != "absent" {
		n.Labels[gKey] = lbl(c.Key)
	}
	if c.Other != "absent" {
		n.Labels[lbl("other")] = lbl(c.Other)
	}
	return n
}

type allPods struct{ pods []*v1.Pod }

func (l allPods) List(labels.Selector) ([]*v1.Pod, error) { return l.pods, nil }
func (l allPods) Pods(string) listerv1.PodNamespaceLister  { return nil }

type dynPods struct{ p *[]*v1.Pod }

func (l dynPods) List(labels.Selector) ([]*v1.Pod, error) { return *l.p, nil }
func (l dynPods) Pods(string) listerv1.PodNamespaceLister  { return nil }

type dynNodes struct{ n *[]*v1.Node }

func (l dynNodes) List(labels.Selector) ([]*v1.Node, error) { return *l.n, nil }
func (l dynNodes) Get(string) (*v1.Node, error)              { return nil, fmt.Errorf("no") }

type allNodes struct{ nodes []*v1.Node }

func (l allNodes) List(labels.Selector) ([]*v1.Node, error) { return l.nodes, nil }
func (l allNodes) Get(string) (*v1.Node, error)              { return nil, fmt.Errorf("no") }

func cmdAttrib(fs *flag.FlagSet, args []string) {
	in := fs.String("in", "", "ndjson of cases")
	trace := fs.String("trace", "trace.ndjson", "output")
	fs.Parse(args)
	f, err := os.Open(*in)
	if err != nil {
		fatal(err)
	}
	defer f.Close()
	var cases []AttrCase
	sc := bufio.NewScanner(f)
	sc.Buffer(make([]byte, 1<<20), 1<<26)
	for sc.Scan() {
		var c AttrCase
		if err := json.Unmarshal(sc.Bytes(), &c); err != nil {
			fatal("bad case:", err)
		}
		if c.Terms == nil {
			c.Terms = [][]AttrExpr{}
		}
		for i := range c.Terms {
			for j := range c.Terms[i] {
				if c.Terms[i][j].Vals == nil {
					c.Terms[i][j].Vals = []string{}
				}
			}
		}
		cases = append(cases, c)
	}
	gOpts := controller.NodeGroupOptions{Name: "buildeng", LabelKey: gKey, LabelValue: gVal}
	dOpts := controller.NodeGroupOptions{Name: controller.DefaultNodeGroup, LabelKey: gKey, LabelValue: gVal}
	gFn := controller.NewPodAffinityFilterFunc(gKey, gVal)
	dFn := controller.NewPodDefaultFilterFunc()
	nFn := controller.NewNodeLabelFilterFunc(gKey, gVal)
	tr := newOut(*trace)
	defer tr.close()
	const batch = 500
	// the listers live as long as the controller does; object names recur from batch to batch with different shapes
	// (a re-submitted job keeps its name), so nothing may remember a verdict by name
	cur := &struct {
		pods  []*v1.Pod
		nodes []*v1.Node
	}{}
	gl := controller.NewNodeGroupLister(dynPods{&cur.pods}, dynNodes{&cur.nodes}, gOpts)
	dl := controller.NewDefaultNodeGroupLister(dynPods{&cur.pods}, dynNodes{&cur.nodes}, dOpts)
	for start := 0; start < len(cases); start += batch {
		end := start + batch
		if end > len(cases) {
			end = len(cases)
		}
		var pods []*v1.Pod
		var nodes []*v1.Node
		obs := make([]AttrObs, end-start)
		for i := start; i < end; i++ {
			c := cases[i]
			o := AttrObs{Ev: "attr", Src: c.Src, Case: c}
			name := fmt.Sprintf("o%d", i%batch)
			if c.Kind == "pod" {
				p := mkAttrPod(c, name)
				pods = append(pods, p)
				o.GroupFn, o.DefaultFn = gFn(p), dFn(p)
			} else {
				n := mkAttrNode(c, name)
				nodes = append(nodes, n)
				o.NodeFn = nFn(n)
			}
			obs[i-start] = o
		}
		cur.pods, cur.nodes = pods, nodes
		in := func(names map[string]bool, n string) bool { return names[n] }
		gp, _ := gl.Pods.List()
		dp, _ := dl.Pods.List()
		gn, _ := gl.Nodes.List()
		dn, _ := dl.Nodes.List()
		gps, dps, gns, dns := map[string]bool{}, map[string]bool{}, map[string]bool{}, map[string]bool{}
		for _, p := range gp {
			gps[p.Name] = true
		}
		for _, p := range dp {
			dps[p.Name] = true
		}
		for _, n := range gn {
			gns[n.Name] = true
		}
		for _, n := range dn {
			dns[n.Name] = true
		}
		for i := start; i < end; i++ {
			o := &obs[i-start]
			name := fmt.Sprintf("o%d", i%batch)
			o.GroupLs, o.DefaultLs, o.NodeLs, o.NodeDefLs = in(gps, name), in(dps, name), in(gns, name), in(dns, name)
			tr.emit(*o)
		}
	}
	fmt.Printf("{\"cases\":%d}\n", len(cases))
}

func init() { extraCmds["attrib"] = cmdAttrib }
