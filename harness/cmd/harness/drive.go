package main

import (
	"bufio"
	"encoding/json"
	"flag"
	"fmt"
	"math/rand"
	"os"
	"sort"
	"sync"
	"time"

	"verif/harness/world"
)

// Event is one step of a history: an environment action or a scan.
type Event struct {
	Ev      string        `json:"ev"`
	Src     string        `json:"src,omitempty"`
	G       string        `json:"g,omitempty"`
	N       string        `json:"n,omitempty"`
	A       int           `json:"a,omitempty"`
	B       int           `json:"b,omitempty"`
	S       string        `json:"s,omitempty"`
	Faults  []world.Fault `json:"faults,omitempty"`
	State   *world.State  `json:"state,omitempty"` // for ev = init
	Seed    int64         `json:"seed,omitempty"`
	Applied bool          `json:"applied,omitempty"`
	Twin    bool          `json:"twin,omitempty"` // scan: also scan a clone with a fresh controller
	RealMs  int64         `json:"realMs,omitempty"` // init: real-time mode with ticks of this many milliseconds
	MemShift int          `json:"memShift,omitempty"` // init: the memory unit is 1 MiB << MemShift
}

// apply performs one environment event on the world; false if it did not apply.
func apply(w *world.World, e *Event) bool {
	switch e.Ev {
	case "tick":
		w.TickEnv()
		return true
	case "pod_arrive":
		w.PodArrive(e.G, e.A, e.B)
		return true
	case "pod_replace":
		return w.PodReplace(e.G, e.S, e.A, e.B)
	case "pod_schedule":
		return w.PodSchedule(e.G, e.N)
	case "pod_finish":
		return w.PodFinish(e.G, e.N)
	case "launch":
		return w.CloudLaunch(e.G, e.N)
	case "register":
		return w.Register(e.G, e.N, world.NodeObj{Pid: pidOr(e.S), Cpu: e.A, Mem: e.B})
	case "cordon":
		return w.Cordon(e.N, true)
	case "uncordon":
		return w.Cordon(e.N, false)
	case "ext_taint":
		return w.ExtTaint(e.N, e.S, e.A)
	case "ext_untaint":
		return w.ExtUntaint(e.N)
	case "force":
		return w.ForceTaint(e.N, true)
	case "unforce":
		return w.ForceTaint(e.N, false)
	case "annotate":
		return w.Annotate(e.N, e.S, true)
	case "unannotate":
		return w.Annotate(e.N, "", false)
	case "node_gone":
		return w.NodeGone(e.N)
	case "asg_edit":
		return w.AsgEdit(e.G, e.A, e.B)
	case "asg_desired":
		return w.AsgSetDesired(e.G, e.A)
	case "instance_gone":
		return w.InstanceGone(e.G, e.N)
	case "instance_lost":
		return w.LoseInstance(e.G, e.N)
	case "restart":
		return w.Restart() == nil
	case "lag_on":
		w.SetLag(e.G, true)
		return true
	case "lag_off":
		w.SetLag(e.G, false)
		return true
	case "shuffle":
		w.ShuffleOrdersSeeded(int64(e.A))
		return true
	}
	fatal("unknown event", e.Ev)
	return false
}

func pidOr(s string) string {
	if s == "" {
		return "ok"
	}
	return s
}

// runHistory executes events from an initial state and emits trace lines.
func runHistory(src string, seed int64, init *world.State, events []Event, tr, ev *out) (scans int, err error) {
	w, err := world.Build(seed, init)
	if err != nil {
		return 0, err
	}
	if ev != nil {
		ev.emit(Event{Ev: "init", Src: src, State: init, Seed: seed})
	}
	for i := range events {
		e := events[i]
		e.Src = src
		if e.Ev == "scan" {
			var twin *world.TwinObs
			if e.Twin {
				twin = twinScan(w, seed)
			}
			line := w.Scan(e.Faults)
			line.Src, line.ID, line.Twin = src, i, twin
			tr.emit(line)
			scans++
			if ev != nil {
				ev.emit(e)
			}
			continue
		}
		e.Applied = apply(w, &e)
		if ev != nil {
			ev.emit(e)
		}
	}
	return scans, nil
}

// twinScan scans a clone of the current world with a fresh controller (no lock memory) and reports
// how many writes it makes per group. Used for C02 "the lock never outlives its cool-down".
func twinScan(w *world.World, seed int64) *world.TwinObs {
	s := w.Project()
	c := s.Clone()
	for g, gs := range c.Groups {
		gs.Ctl.LockAt, gs.Ctl.IsLocked, gs.Ctl.Requested = world.Never, false, 0
		gs.Accepted = world.Never
		c.Groups[g] = gs
	}
	tw, err := world.Build(seed+1, c)
	if err != nil {
		return nil
	}
	for g := range c.Groups {
		tw.Order[g] = append([]string{}, w.Order[g]...)
	}
	line := tw.Scan(nil)
	obs := &world.TwinObs{Writes: world.Writes(line.Calls), NoAnnotTerminated: map[string][]string{}, CloneTerminated: map[string][]string{}}
	// two more clones with the controller memory kept: one exact, one without any no-delete annotation
	for _, strip := range []bool{false, true} {
		c2 := s.Clone()
		out := obs.CloneTerminated
		if strip {
			out = obs.NoAnnotTerminated
		}
		for g, gs := range c2.Groups {
			if strip {
				for n, o := range gs.Api {
					o.Nodel = false
					gs.Api[n] = o
				}
				for n, o := range gs.View {
					o.Nodel = false
					gs.View[n] = o
				}
			}
			c2.Groups[g] = gs
			out[g] = []string{}
		}
		if tw2, err := world.Build(seed+2, c2); err == nil {
			for g := range c2.Groups {
				tw2.Order[g] = append([]string{}, w.Order[g]...)
			}
			l2 := tw2.Scan(nil)
			for _, cl := range l2.Calls {
				if cl.Op == "terminate" && cl.Ok {
					out[cl.G] = append(out[cl.G], cl.N)
				}
			}
		}
	}
	return obs
}

// ---------------------------------------------------------------- random histories

var thresholdTriples = [][3]int{{30, 45, 70}, {10, 20, 50}, {40, 60, 90}, {30, 60, 80}, {1, 50, 100}, {20, 40, 120}}

type genOpts struct {
	maxNodes  int
	maxGroups int
	steps     int
	faultPct  int
	fleet     bool
	lag       bool
	odd       bool
	profile   string
	twinAll   bool
	dryPct    int
	fine      bool // large node sizes (in units), so that utilisation takes fine-grained values
	iso       bool
	enum      int
	enum2     bool
	refresh   bool // some fault scans fail the first provider refresh (costs the code's own 5 s sleep each)
}

// weights of the event kinds per profile (per cent-ish; normalised when drawn)
var profiles = map[string]map[string]int{
	"mix":  {"scan": 30, "tick": 12, "pod_arrive": 10, "pod_schedule": 8, "pod_finish": 8, "launch": 5, "register": 7, "cordon": 3, "ext_taint": 3, "ext_untaint": 1, "force": 3, "annotate": 3, "node_gone": 1, "asg_edit": 2, "restart": 1, "lag": 1, "shuffle": 2},
	"down": {"scan": 35, "tick": 6, "pod_arrive": 3, "pod_schedule": 3, "pod_finish": 14, "launch": 3, "register": 8, "cordon": 2, "ext_taint": 1, "ext_untaint": 3, "force": 1, "annotate": 2, "node_gone": 0, "asg_edit": 2, "restart": 1, "lag": 0, "shuffle": 6},
	"reap": {"scan": 30, "tick": 20, "pod_arrive": 3, "pod_schedule": 5, "pod_finish": 10, "launch": 2, "register": 4, "cordon": 4, "ext_taint": 8, "ext_untaint": 1, "force": 5, "annotate": 5, "node_gone": 1, "asg_edit": 1, "restart": 3, "lag": 0, "shuffle": 3},
	"up":   {"scan": 32, "tick": 8, "pod_arrive": 18, "pod_schedule": 6, "pod_finish": 5, "launch": 5, "register": 8, "cordon": 2, "ext_taint": 6, "ext_untaint": 0, "force": 4, "annotate": 1, "node_gone": 0, "asg_edit": 6, "restart": 1, "lag": 0, "shuffle": 4},
	"cycle-drain": {"scan": 36, "tick": 20, "pod_arrive": 0, "pod_schedule": 2, "pod_finish": 44, "launch": 0, "register": 2, "cordon": 0, "ext_taint": 0, "ext_untaint": 0, "force": 1, "annotate": 1, "node_gone": 0, "asg_edit": 0, "restart": 0, "lag": 0, "shuffle": 2},
	"cycle-burst": {"scan": 40, "tick": 12, "pod_arrive": 22, "pod_schedule": 8, "pod_finish": 0, "launch": 1, "register": 3, "cordon": 0, "ext_taint": 0, "ext_untaint": 0, "force": 0, "annotate": 0, "node_gone": 0, "asg_edit": 0, "restart": 0, "lag": 0, "shuffle": 2},
	// more nodes than max_nodes: operators bump the desired capacity, nodes register, pods land on tainted nodes (tolerations)
	"overmax": {"scan": 30, "tick": 14, "pod_arrive": 3, "pod_schedule": 12, "pod_finish": 7, "launch": 8, "register": 10, "cordon": 1, "ext_taint": 10, "ext_untaint": 0, "force": 2, "annotate": 0, "node_gone": 8, "asg_edit": 0, "restart": 1, "lag": 0, "shuffle": 1},
	"annotlate": {"scan": 30, "tick": 20, "pod_arrive": 3, "pod_schedule": 5, "pod_finish": 10, "launch": 2, "register": 4, "cordon": 2, "ext_taint": 8, "ext_untaint": 1, "force": 3, "annotate": 8, "node_gone": 1, "asg_edit": 0, "restart": 1, "lag": 0, "shuffle": 3},
	// instances are replaced by the cloud (lost, relaunched, registered) between removals: membership changes while counts do not
	"swap": {"scan": 30, "tick": 6, "pod_arrive": 2, "pod_schedule": 2, "pod_finish": 6, "launch": 12, "register": 12, "cordon": 0, "ext_taint": 4, "ext_untaint": 0, "force": 12, "annotate": 0, "node_gone": 12, "asg_edit": 0, "restart": 1, "lag": 0, "shuffle": 1},
	// launch-template (fleet) groups under load, most scale-ups with a failing fleet step
	"fleetfail": {"scan": 34, "tick": 10, "pod_arrive": 22, "pod_schedule": 4, "pod_finish": 3, "launch": 3, "register": 8, "cordon": 1, "ext_taint": 3, "ext_untaint": 0, "force": 2, "annotate": 0, "node_gone": 0, "asg_edit": 2, "restart": 1, "lag": 0, "shuffle": 2},
	"lock": {"scan": 38, "tick": 16, "pod_arrive": 14, "pod_schedule": 4, "pod_finish": 4, "launch": 4, "register": 6, "cordon": 5, "ext_taint": 4, "ext_untaint": 0, "force": 3, "annotate": 0, "node_gone": 0, "asg_edit": 2, "restart": 2, "lag": 0, "shuffle": 1},
}

func drawKind(r *rand.Rand, profile string, step int) string {
	if profile == "cycle" { // load comes and goes: taint / untaint / re-taint cycles within one controller lifetime
		if (step/7)%2 == 0 {
			profile = "cycle-drain"
		} else {
			profile = "cycle-burst"
		}
	}
	w, ok := profiles[profile]
	if !ok {
		w = profiles["mix"]
	}
	keys := make([]string, 0, len(w))
	total := 0
	for k, v := range w {
		keys = append(keys, k)
		total += v
	}
	sort.Strings(keys)
	x := r.Intn(total)
	for _, k := range keys {
		if x < w[k] {
			return k
		}
		x -= w[k]
	}
	return "scan"
}

func genCfg(r *rand.Rand, o genOpts) world.Cfg {
	t := thresholdTriples[r.Intn(len(thresholdTriples))]
	c := world.Cfg{Lower: t[0], Upper: t[1], Up: t[2]}
	if o.profile == "fromzero" {
		c.Min, c.Max = 0, 6+r.Intn(4)
		c.Slow, c.Fast = 2, 4
		c.Soft, c.Hard, c.Cool = 1, 2, 1
		return c
	}
	if o.profile == "overmax" {
		c.Min, c.Max = r.Intn(2), 1+r.Intn(3)
		c.Slow, c.Fast = 1, 2
		c.Soft = 1 + r.Intn(2)
		c.Hard = c.Soft + 2 + r.Intn(3)
		c.Cool = 1
		return c
	}
	if o.profile == "annotlate" {
		c.Min, c.Max = 0, 6+r.Intn(3)
		c.Slow, c.Fast = 1, 2
		c.Soft = 1 + r.Intn(2)
		c.Hard = c.Soft + 1 + r.Intn(2)
		c.Cool = 1
		return c
	}
	if o.profile == "cycle" {
		c.Min = r.Intn(2)
		c.Max = c.Min + 4 + r.Intn(4)
		c.Slow = 1 + r.Intn(2)
		c.Fast = c.Slow + r.Intn(3)
		c.Soft = 1 + r.Intn(2)
		c.Hard = c.Soft + 1 + r.Intn(3)
		c.Cool = 1
		c.Effect = []string{"", "NoExecute"}[r.Intn(2)]
		return c
	}
	c.Min = r.Intn(3)
	c.Max = c.Min + 1 + r.Intn(o.maxNodes)
	c.Slow = r.Intn(3)
	c.Fast = c.Slow + r.Intn(4)
	c.Soft = 1 + r.Intn(2)
	c.Hard = c.Soft + 1 + r.Intn(2)
	c.Cool = 1 + r.Intn(3)
	if r.Intn(4) == 0 {
		c.MaxAge = 3 + r.Intn(3)
	}
	c.Dry = r.Intn(100) < o.dryPct
	c.Starve = r.Intn(4) == 0
	c.Auto = r.Intn(6) == 0
	c.Effect = []string{"", "NoSchedule", "NoExecute", "PreferNoSchedule"}[r.Intn(4)]
	if o.fleet && (r.Intn(3) == 0 || o.profile == "fleetfail") {
		c.Fleet = true
	}
	if o.profile == "fleetfail" {
		c.Dry, c.Max = false, c.Max+3
	}
	return c
}

func genInit(r *rand.Rand, o genOpts) *world.State {
	names := []string{"a", "b", "default"}
	r.Shuffle(len(names), func(i, j int) { names[i], names[j] = names[j], names[i] })
	ng := 1 + r.Intn(o.maxGroups)
	s := &world.State{Now: 0, Alive: true, DryAll: r.Intn(25) == 0, Groups: map[string]world.Group{}}
	for _, g := range names[:ng] {
		s.Gorder = append(s.Gorder, g)
		cfg := genCfg(r, o)
		n := r.Intn(o.maxNodes + 1)
		if r.Intn(3) > 0 && n < cfg.Min {
			n = cfg.Min
		}
		if o.profile == "overmax" {
			n = cfg.Max - 1 + r.Intn(3)
		} else if r.Intn(8) > 0 && n > cfg.Max {
			cfg.Max = n + r.Intn(3)
		}
		kc, km := 4+2*r.Intn(4), 4+2*r.Intn(4)
		if o.fine && r.Intn(3) > 0 {
			kc, km = []int{40, 64, 100}[r.Intn(3)], []int{40, 64, 100}[r.Intn(3)]
		}
		gs := world.Group{Cfg: cfg, Api: world.NodeMap{}, Pods: []world.Pod{}, Order: []string{}, Accepted: world.Never,
			Ctl: world.Ctl{LockAt: world.Never, LastOut: world.Never, Tracker: []string{}}}
		var members []string
		for i := 1; i <= n; i++ {
			id := fmt.Sprintf("%s%d", g[:1], i)
			no := world.NodeObj{Created: -2 - r.Intn(4), Pid: "ok", Cpu: kc, Mem: km}
			gs.Api[id] = no
			members = append(members, id)
			gs.Order = append(gs.Order, id)
			// some running pods
			for k := r.Intn(3); k > 0; k-- {
				gs.Pods = append(gs.Pods, world.Pod{Cpu: 1 + r.Intn(kc/2), Mem: 1 + r.Intn(km/2), Node: id, Sched: true})
			}
		}
		sort.Strings(members)
		if members == nil {
			members = []string{}
		}
		amin := cfg.Min
		amax := cfg.Max
		switch r.Intn(4) {
		case 0:
			amax = cfg.Max + 1 + r.Intn(3)
		case 1:
			if cfg.Max > n+1 && cfg.Max > amin+1 {
				amax = cfg.Max - 1
			}
		}
		if cfg.Auto || r.Intn(3) == 0 {
			amin = r.Intn(cfg.Min + 1)
		}
		if amax < n {
			amax = n
		}
		if o.profile == "overmax" {
			amax = cfg.Max + 2 + r.Intn(2)
		}
		if cfg.Auto && r.Intn(3) == 0 { // an auto-discovering group whose cloud group is pinned: min = max = current size
			amin, amax = n, n
		}
		gs.Asg = world.Asg{Min: amin, Max: amax, Desired: n, Members: members, Terminating: []string{}, Linger: r.Intn(3) == 0}
		gs.Pc = gs.Asg
		s.Groups[g] = gs
	}
	return s
}

// genEvents draws a random history against a live world (so that events mostly apply).
// genFromZero scripts the history "nodes of one size, then nodes of another size, drain to zero, scale up from zero" with random
// parameters: the from-zero scale-up must be sized with the size observed last.
func genFromZero(r *rand.Rand, w *world.World, nextID map[string]int, step int) Event {
	g := w.Gorder[0]
	st := w.Project()
	gs := st.Groups[g]
	ids := world.SortedKeys(gs.Api)
	switch {
	case step < 3:
		return Event{Ev: "scan"}
	case step < 12: // rotate the instance type: new, differently sized nodes come, old ones go
		for _, m := range gs.Asg.Members {
			if _, ok := gs.Api[m]; !ok {
				return Event{Ev: "register", G: g, N: m, A: 12 + 2*r.Intn(4), B: 3 + r.Intn(3)}
			}
		}
		if step%3 == 0 && gs.Asg.Desired < gs.Cfg.Max {
			return Event{Ev: "asg_desired", G: g, A: gs.Asg.Desired + 1}
		}
		if step%3 == 1 {
			nextID[g]++
			return Event{Ev: "launch", G: g, N: fmt.Sprintf("%s%d", g[:1], 100+nextID[g])}
		}
		return Event{Ev: "scan"}
	case step < 40: // drain: pods finish, time passes, nodes are tainted and reaped down to zero
		if len(gs.Pods) > 0 && step%2 == 0 {
			return Event{Ev: "pod_finish", G: g, N: gs.Pods[0].Node}
		}
		if len(ids) == 0 {
			if len(gs.Pods) == 0 {
				return Event{Ev: "pod_arrive", G: g, A: 3 + r.Intn(20), B: 1 + r.Intn(6)}
			}
			return Event{Ev: "scan"}
		}
		if step%3 == 0 {
			return Event{Ev: "tick"}
		}
		return Event{Ev: "scan"}
	default:
		if len(ids) == 0 && len(gs.Pods) < 3 {
			return Event{Ev: "pod_arrive", G: g, A: 3 + r.Intn(20), B: 1 + r.Intn(6)}
		}
		if step%4 == 0 {
			return Event{Ev: "tick"}
		}
		return Event{Ev: "scan"}
	}
}

// genOverMax scripts the opening "a tainted node is empty at an in-bounds scan, then receives a pod (toleration), the group grows past
// max_nodes, the soft grace period passes" with random parameters; ok = false hands over to the random event mix.
func genOverMax(r *rand.Rand, w *world.World, nextID map[string]int, step int) (Event, bool) {
	g := w.Gorder[0]
	st := w.Project()
	gs := st.Groups[g]
	ids := world.SortedKeys(gs.Api)
	if len(ids) == 0 {
		return Event{}, false
	}
	x := ids[0]
	onX := 0
	for _, p := range gs.Pods {
		if p.Node == x {
			onX++
		}
	}
	over := len(ids) > gs.Cfg.Max
	ph := nextID["#phase"]
	next := func(e Event) (Event, bool) { nextID["#phase"] = ph + 1; return e, true }
	switch {
	case ph == 0 && onX > 0:
		return Event{Ev: "pod_finish", G: g, N: x}, true
	case ph == 0:
		return next(Event{Ev: "ext_taint", N: x, S: "now", A: st.Now})
	case ph == 1: // the in-bounds scan that sees x tainted and empty
		return next(Event{Ev: "scan"})
	case ph == 2:
		return next(Event{Ev: "pod_arrive", G: g, A: 1, B: 1})
	case ph == 3:
		return next(Event{Ev: "pod_schedule", G: g, N: x})
	case ph == 4 && !over && step < 30:
		for _, m := range gs.Asg.Members {
			if _, ok := gs.Api[m]; !ok {
				return Event{Ev: "register", G: g, N: m, A: gs.Api[x].Cpu, B: gs.Api[x].Mem}, true
			}
		}
		if len(gs.Asg.Members) < gs.Asg.Desired {
			nextID[g]++
			return Event{Ev: "launch", G: g, N: fmt.Sprintf("%s%d", g[:1], 100+nextID[g])}, true
		}
		if gs.Asg.Desired < gs.Asg.Max {
			return Event{Ev: "asg_desired", G: g, A: gs.Asg.Desired + 1}, true
		}
		return Event{}, false
	case ph >= 4 && ph < 4+2*(gs.Cfg.Soft+2) && over:
		if (ph-4)%2 == 0 {
			return next(Event{Ev: "tick"})
		}
		return next(Event{Ev: "scan"})
	}
	return Event{}, false
}

// genAnnotLate scripts the opening "a node is tainted and seen by a scan while it cannot be removed yet, is annotated no-delete
// afterwards, drains, and its grace periods pass": the annotation must protect it whenever it was added.
func genAnnotLate(r *rand.Rand, w *world.World, nextID map[string]int, step int) (Event, bool) {
	g := w.Gorder[0]
	st := w.Project()
	gs := st.Groups[g]
	ids := world.SortedKeys(gs.Api)
	if len(ids) == 0 {
		return Event{}, false
	}
	x := ids[nextID["#x"]%len(ids)]
	onX := 0
	for _, p := range gs.Pods {
		if p.Node == x {
			onX++
		}
	}
	ph := nextID["#phase"]
	next := func(e Event) (Event, bool) { nextID["#phase"] = ph + 1; return e, true }
	switch {
	case ph == 0:
		nextID["#x"] = r.Intn(len(ids))
		return next(Event{Ev: "shuffle", A: 1 + r.Intn(1000000)})
	case ph == 1:
		if gs.Api[x].Taint.Has {
			return next(Event{Ev: "shuffle", A: 1 + r.Intn(1000000)})
		}
		return next(Event{Ev: "ext_taint", N: x, S: "now", A: st.Now})
	case ph == 2:
		return next(Event{Ev: "scan"})
	case ph == 3:
		return next(Event{Ev: "annotate", N: x, S: []string{"x", "reason"}[r.Intn(2)]})
	case ph == 4 && onX > 0:
		return Event{Ev: "pod_finish", G: g, N: x}, true
	case ph >= 4 && ph < 4+2*(gs.Cfg.Hard+2):
		if (ph-4)%2 == 0 {
			return next(Event{Ev: "tick"})
		}
		return next(Event{Ev: "scan"})
	}
	return Event{}, false
}

func genStep(r *rand.Rand, w *world.World, o genOpts, nextID map[string]int, step int) Event {
	if o.profile == "annotlate" && nextID["#scripted"] >= 0 {
		if e, ok := genAnnotLate(r, w, nextID, step); ok {
			return e
		}
		nextID["#scripted"] = -1
	}
	if o.profile == "fromzero" {
		return genFromZero(r, w, nextID, step)
	}
	if o.profile == "overmax" && nextID["#scripted"] >= 0 {
		if nextID["#scripted"] == 0 { // half of the histories open with the script
			nextID["#scripted"] = 1 - 2*r.Intn(2)
		}
		if nextID["#scripted"] > 0 {
			if e, ok := genOverMax(r, w, nextID, step); ok {
				return e
			}
			nextID["#scripted"] = -1
		}
	}
	g := w.Gorder[r.Intn(len(w.Gorder))]
	st := w.Project()
	gs := st.Groups[g]
	ids := world.SortedKeys(gs.Api)
	pick := func() string {
		if len(ids) == 0 {
			return ""
		}
		return ids[r.Intn(len(ids))]
	}
	size := func() (int, int) {
		for _, id := range ids {
			if gs.Api[id].Cpu > 0 {
				return gs.Api[id].Cpu, gs.Api[id].Mem
			}
		}
		if gs.Ctl.CapCpu > 0 {
			return gs.Ctl.CapCpu, gs.Ctl.CapMem
		}
		return 4 + 2*r.Intn(4), 4 + 2*r.Intn(4)
	}
	switch drawKind(r, o.profile, step) {
	case "scan":
		e := Event{Ev: "scan"}
		if r.Intn(100) < o.faultPct {
			e.Faults = genFaults(r, st, g)
			if o.refresh && r.Intn(3) == 0 {
				e.Faults = []world.Fault{{Op: "describe_asgs", T: "#1"}}
			}
		}
		if o.refresh && r.Intn(2) == 0 { // a refresh failure while some group is cooling down after an accepted scale-up
			for _, h := range st.Gorder {
				if hs := st.Groups[h]; hs.Accepted != world.Never && st.Now-hs.Accepted < hs.Cfg.Cool {
					e.Faults = []world.Fault{{Op: "describe_asgs", T: "#1"}}
				}
			}
		}
		e.Twin = o.twinAll || r.Intn(6) == 0
		return e
	case "tick":
		if len(gs.Asg.Terminating) > 0 && r.Intn(2) == 0 { // the cloud finishes terminating an instance
			return Event{Ev: "instance_gone", G: g, N: gs.Asg.Terminating[r.Intn(len(gs.Asg.Terminating))]}
		}
		return Event{Ev: "tick"}
	case "pod_arrive":
		kc, km := size()
		if world.MemUnit == int64(1)<<40 { // -huge: keep the group's request total where Quantity.MilliValue() is still an int64 (8 388 TiB)
			tot := 0
			for _, p := range gs.Pods {
				tot += p.Mem
			}
			if tot > 6000 {
				return Event{Ev: "scan"}
			}
		}
		if len(gs.Pods) > 0 && r.Intn(5) == 0 { // a pod is re-submitted under its old name, for this or another group, with other requests
			g2 := w.Gorder[r.Intn(len(w.Gorder))]
			if o.iso {
				g2 = g // twin runs need changes confined to one group
			}
			return Event{Ev: "pod_replace", G: g, S: g2, A: 1 + r.Intn(kc), B: 1 + r.Intn(km)}
		}
		if r.Intn(5) == 0 { // one big pod does as well as a burst
			return Event{Ev: "pod_arrive", G: g, A: kc, B: 1 + r.Intn(km)}
		}
		return Event{Ev: "pod_arrive", G: g, A: 1 + r.Intn(kc/2+1), B: 1 + r.Intn(km/2+1)}
	case "pod_schedule":
		return Event{Ev: "pod_schedule", G: g, N: pick()}
	case "pod_finish":
		if len(gs.Pods) > 0 { // finish an existing pod (wherever it is)
			return Event{Ev: "pod_finish", G: g, N: gs.Pods[r.Intn(len(gs.Pods))].Node}
		}
		return Event{Ev: "pod_finish", G: g, N: pick()}
	case "launch":
		nextID[g]++
		return Event{Ev: "launch", G: g, N: fmt.Sprintf("%s%d", g[:1], 100+nextID[g])}
	case "register":
		// register an instance that has no node yet
		for _, m := range gs.Asg.Members {
			if _, ok := gs.Api[m]; !ok {
				kc, km := size()
				if r.Intn(8) == 0 { // the launch template changed: new nodes come in another size
					kc, km = kc+2, km+4
				}
				e := Event{Ev: "register", G: g, N: m, A: kc, B: km}
				if o.odd && r.Intn(4) == 0 {
					e.S = []string{"empty", "short"}[r.Intn(2)]
				}
				if o.odd && r.Intn(6) == 0 {
					e.A, e.B = 0, 0
				}
				return e
			}
		}
		return Event{Ev: "tick"}
	case "cordon":
		return Event{Ev: []string{"cordon", "uncordon"}[r.Intn(2)], N: pick()}
	case "ext_taint":
		kinds := []string{"now", "old", "old", "old", "bad", "future", "zero"}
		k := kinds[r.Intn(len(kinds))]
		at := st.Now
		if k == "old" {
			at = st.Now - 1 - r.Intn(4)
		}
		return Event{Ev: "ext_taint", N: pick(), S: k, A: at}
	case "ext_untaint":
		return Event{Ev: "ext_untaint", N: pick()}
	case "force":
		return Event{Ev: []string{"force", "force", "unforce"}[r.Intn(3)], N: pick()}
	case "annotate":
		return Event{Ev: []string{"annotate", "annotate", "unannotate"}[r.Intn(3)], N: pick(), S: []string{"x", "reason", "", " ", "\t"}[r.Intn(5)]}
	case "node_gone":
		if (o.profile == "swap" || r.Intn(4) == 0) && len(gs.Asg.Members) > 0 && r.Intn(2) == 0 { // the cloud takes an instance away; its Node stays for now
			return Event{Ev: "instance_lost", G: g, N: gs.Asg.Members[r.Intn(len(gs.Asg.Members))]}
		}
		if r.Intn(2) == 0 && gs.Asg.Desired < gs.Asg.Max {
			return Event{Ev: "asg_desired", G: g, A: gs.Asg.Desired + 1} // an operator bumps the desired capacity by hand
		}
		return Event{Ev: "node_gone", N: pick()}
	case "asg_edit":
		if gs.Cfg.Auto || r.Intn(3) > 0 {
			mn := r.Intn(3)
			if !gs.Cfg.Auto && r.Intn(2) == 0 { // keep the minimum, move the maximum around max_nodes
				return Event{Ev: "asg_edit", G: g, A: gs.Asg.Min, B: gs.Asg.Desired + r.Intn(gs.Cfg.Max+3)}
			}
			if gs.Cfg.Auto && r.Intn(4) == 0 { // pin the cloud group at its current size
				return Event{Ev: "asg_edit", G: g, A: gs.Asg.Desired, B: gs.Asg.Desired}
			}
			return Event{Ev: "asg_edit", G: g, A: mn, B: mn + 1 + r.Intn(o.maxNodes+2)}
		}
		return Event{Ev: "shuffle", A: 1 + r.Intn(1000000)}
	case "restart":
		return Event{Ev: "restart"}
	case "lag":
		if o.lag {
			return Event{Ev: []string{"lag_on", "lag_off"}[r.Intn(2)], G: g}
		}
		return Event{Ev: "shuffle", A: 1 + r.Intn(1000000)}
	}
	return Event{Ev: "shuffle", A: 1 + r.Intn(1000000)}
}

func genFaults(r *rand.Rand, st *world.State, g string) []world.Fault {
	gs := st.Groups[g]
	ids := world.SortedKeys(gs.Api)
	var fs []world.Fault
	for k := 1 + r.Intn(2); k > 0; k-- {
		n := ""
		if len(ids) > 0 {
			n = ids[r.Intn(len(ids))]
		}
		if r.Intn(12) == 0 { // the process dies just before its k-th write of the scan
			fs = append(fs, world.Fault{Op: "crash", T: fmt.Sprintf("#%d", 1+r.Intn(4))})
			continue
		}
		if gs.Cfg.Fleet && r.Intn(2) == 0 {
			switch r.Intn(5) {
			case 0:
				fs = append(fs, world.Fault{Op: "status", T: g})
			case 1:
				fs = append(fs, world.Fault{Op: "attach", T: []string{"#1", "#2"}[r.Intn(2)]})
			case 2:
				fs = append(fs, world.Fault{Op: "create_fleet", T: g})
			case 3:
				fs = append(fs, world.Fault{Op: "status", T: g}, world.Fault{Op: "terminate_instances", T: "#1"})
			case 4:
				fs = append(fs, world.Fault{Op: "create_fleet_none", T: g})
			}
			continue
		}
		switch r.Intn(10) {
		case 9:
			fs = append(fs, world.Fault{Op: "describe_instance", T: n})
		case 0:
			fs = append(fs, world.Fault{Op: "list_pods", T: g})
		case 1:
			fs = append(fs, world.Fault{Op: "list_nodes", T: g})
		case 2, 3:
			fs = append(fs, world.Fault{Op: "get", T: n})
		case 4, 5:
			if r.Intn(3) == 0 { // the write loses a race against another writer (409 Conflict)
				fs = append(fs, world.Fault{Op: "conflict", T: n})
			} else {
				fs = append(fs, world.Fault{Op: "update", T: n})
			}
		case 6:
			fs = append(fs, world.Fault{Op: "delete", T: n})
		case 7:
			fs = append(fs, world.Fault{Op: "terminate", T: n})
		case 8:
			if r.Intn(2) == 0 && g == st.Gorder[len(st.Gorder)-1] && !gs.Cfg.Fleet { // the cloud takes one tick to answer (only for the group scanned last)
				fs = append(fs, world.Fault{Op: "slow", T: g})
			} else {
				fs = append(fs, world.Fault{Op: "set_desired", T: g})
			}
		}
	}
	// a process that dies mid-scan is replayed call by call (CrashCut): keep its scan free of faults with side effects of their own
	for _, f := range fs {
		if f.Op == "crash" {
			var keep []world.Fault
			for _, x := range fs {
				if x.Op != "conflict" && x.Op != "slow" {
					keep = append(keep, x)
				}
			}
			return keep
		}
	}
	return fs
}

func cmdDrive(fs *flag.FlagSet, args []string) {
	seed := fs.Int64("seed", 1, "seed")
	n := fs.Int("n", 20, "number of histories")
	steps := fs.Int("steps", 60, "events per history")
	maxNodes := fs.Int("nodes", 6, "max initial nodes per group")
	maxGroups := fs.Int("groups", 3, "max groups")
	faultPct := fs.Int("faults", 15, "percent of scans with injected faults")
	fleet := fs.Bool("fleet", false, "allow fleet-mode groups (each fleet scale-up costs >= 1 s)")
	lag := fs.Bool("lag", false, "allow lagging lister views")
	odd := fs.Bool("odd", false, "allow odd node shapes")
	profile := fs.String("profile", "mix", "event mix: mix | down | reap | up | lock")
	twinAll := fs.Bool("twin", false, "twin-scan a clone with a fresh controller at every scan")
	dryPct := fs.Int("dry", 12, "percent of groups in dry mode")
	fine := fs.Bool("fine", false, "large node sizes: fine-grained utilisation values")
	realtime := fs.Duration("realtime", 0, "real-time mode: one tick is this long and really elapses (e.g. 4s); 0 = virtual time")
	refresh := fs.Bool("refresh", false, "some faulty scans fail the first DescribeAutoScalingGroups of the scan (each costs the code's own 5 s sleep)")
	enum := fs.Int("enum", 0, "percent of scans at which every call of the scan is failed in turn on clones of the world (fault enumeration by call index)")
	enum2 := fs.Bool("enum2", false, "with -enum: also every pair of calls")
	iso := fs.Bool("iso", false, "isolation twin: re-run every history without the events of one group and record both call sequences (C12)")
	trace := fs.String("trace", "trace.ndjson", "output: scan lines for TLC")
	events := fs.String("events", "", "output: all events (for replay)")
	huge := fs.Bool("huge", false, "memory unit 1 TiB instead of 1 MiB: group totals of hundreds of TiB (int64 headroom of milli-byte arithmetic)")
	par := fs.Int("par", 1, "parallel histories (metrics are process-global: keep 1 when gauges matter)")
	fs.Parse(args)
	if *realtime > 0 {
		world.Tick, world.RealTime = *realtime, true
	}
	if *huge {
		world.MemUnit = int64(1) << 40
	}
	tr := newOut(*trace)
	defer tr.close()
	var ev *out
	if *events != "" {
		ev = newOut(*events)
		defer ev.close()
	}
	o := genOpts{maxNodes: *maxNodes, maxGroups: *maxGroups, steps: *steps, faultPct: *faultPct, fleet: *fleet, lag: *lag, odd: *odd, profile: *profile, twinAll: *twinAll, dryPct: *dryPct, fine: *fine, iso: *iso, enum: *enum, enum2: *enum2, refresh: *refresh}
	var wg sync.WaitGroup
	sem := make(chan struct{}, *par)
	var mu sync.Mutex
	total := 0
	for h := 0; h < *n; h++ {
		wg.Add(1)
		sem <- struct{}{}
		go func(h int) {
			defer wg.Done()
			defer func() { <-sem }()
			hs := *seed*100003 + int64(h)
			k := driveOne(fmt.Sprintf("drive:%d:%d", *seed, h), hs, o, tr, ev)
			mu.Lock()
			total += k
			mu.Unlock()
		}(h)
	}
	wg.Wait()
	fmt.Printf("{\"histories\":%d,\"scans\":%d}\n", *n, total)
}

func driveOne(src string, seed int64, o genOpts, tr, ev *out) int {
	r := rand.New(rand.NewSource(seed))
	init := genInit(r, o)
	w, err := world.Build(seed, init)
	if err != nil {
		fatal("build:", err)
	}
	w.NoGauges = world.RealTime // histories run concurrently in one process in real-time mode; gauges are process-global
	// buffer this history's lines so that histories do not interleave in the output
	var lines []interface{}
	var evs []interface{}
	ie := Event{Ev: "init", Src: src, State: init, Seed: seed}
	if world.MemUnit == int64(1)<<40 {
		ie.MemShift = 20
	}
	if world.RealTime {
		ie.RealMs = int64(world.Tick / time.Millisecond)
	}
	evs = append(evs, ie)
	nextID := map[string]int{}
	scans := 0
	for i := 0; i < o.steps; i++ {
		e := genStep(r, w, o, nextID, i)
		e.Src = src
		if e.Ev == "scan" {
			if !w.Alive {
				re := Event{Ev: "restart", Src: src}
				re.Applied = apply(w, &re)
				evs = append(evs, re)
			}
			var twin *world.TwinObs
			if e.Twin {
				twin = twinScan(w, seed)
			}
			if o.enum > 0 && r.Intn(100) < o.enum {
				lines = append(lines, enumFaults(w, seed, fmt.Sprintf("%s#enum%d", src, len(evs)-1), o.enum2)...)
			}
			line := w.Scan(e.Faults)
			if w.Late {
				break // real-time mode: the scan overran its tick budget; its record is not trustworthy
			}
			line.Src, line.ID, line.Twin = src, len(evs)-1, twin
			lines = append(lines, line)
			scans++
			evs = append(evs, e)
			continue
		}
		e.Applied = apply(w, &e)
		evs = append(evs, e)
		if w.Late {
			break // real-time mode: a step overran its tick budget; keep what was recorded before
		}
	}
	if o.iso {
		isoTwin(src, seed, init, evs, lines, r, tr)
		if ev != nil {
			for _, e := range evs {
				ev.emit(e)
			}
		}
		return scans
	}
	for _, l := range lines {
		tr.emit(l)
	}
	if ev != nil {
		for _, e := range evs {
			ev.emit(e)
		}
	}
	return scans
}

// ---------------------------------------------------------------- replay of recorded / generated schedules

func cmdReplay(fs *flag.FlagSet, args []string) {
	in := fs.String("in", "", "events file (init + events, several histories allowed)")
	trace := fs.String("trace", "trace.ndjson", "output: scan lines for TLC")
	only := fs.String("src", "", "replay only this history")
	fs.Parse(args)
	f, err := os.Open(*in)
	if err != nil {
		fatal(err)
	}
	defer f.Close()
	tr := newOut(*trace)
	defer tr.close()
	sc := bufio.NewScanner(f)
	sc.Buffer(make([]byte, 1<<20), 1<<26)
	var w *world.World
	scans, idx := 0, 0
	skip := false
	for sc.Scan() {
		var e Event
		if err := json.Unmarshal(sc.Bytes(), &e); err != nil {
			fatal("bad event:", err)
		}
		if e.Ev == "init" {
			skip = *only != "" && e.Src != *only
			if skip {
				continue
			}
			if e.RealMs > 0 {
				world.Tick, world.RealTime = time.Duration(e.RealMs)*time.Millisecond, true
			} else {
				world.Tick, world.RealTime = time.Hour, false
			}
			world.MemUnit = int64(1) << (20 + uint(e.MemShift))
			w, err = world.Build(e.Seed, e.State)
			if err != nil {
				fatal("build:", err)
			}
			idx = 0
			continue
		}
		if skip || w == nil {
			continue
		}
		if e.Ev == "scan" {
			var twin *world.TwinObs
			if e.Twin {
				twin = twinScan(w, 1)
			}
			line := w.Scan(e.Faults)
			line.Src, line.ID, line.Twin = e.Src, idx, twin
			tr.emit(line)
			scans++
		} else {
			apply(w, &e)
		}
		idx++
	}
	fmt.Printf("{\"scans\":%d}\n", scans)
}

// IsoLine records one scan of a history (A) and of its twin (B), which lacks every environment event of group H.
type IsoLine struct {
	Ev     string       `json:"ev"`
	Src    string       `json:"src"`
	ID     int          `json:"id"`
	H      string       `json:"h"`
	Gorder []string     `json:"gorder"`
	CallsA []world.Call `json:"callsA"`
	CallsB []world.Call `json:"callsB"`
	RetA   string       `json:"retA"`
	RetB   string       `json:"retB"`
	Dropped int         `json:"dropped"` // environment events of H dropped so far
	FatalSeen bool      `json:"fatalSeen"` // a fatal stop (or panic / exit) has occurred in either run: later scans are not comparable
}

func groupOfEvent(e Event, gorder []string) string {
	if e.G != "" {
		return e.G
	}
	if e.N != "" {
		for _, g := range gorder {
			if g[:1] == e.N[:1] {
				return g
			}
		}
	}
	return ""
}

func isoTwin(src string, seed int64, init *world.State, evs []interface{}, lines []interface{}, r *rand.Rand, tr *out) {
	if len(init.Gorder) < 2 {
		return
	}
	h := init.Gorder[r.Intn(len(init.Gorder))]
	tw, err := world.Build(seed, init)
	if err != nil {
		return
	}
	li, dropped := 0, 0
	fatal := false
	for _, x := range evs {
		e, ok := x.(Event)
		if !ok || e.Ev == "init" {
			continue
		}
		if e.Ev == "scan" {
			if li >= len(lines) {
				break
			}
			a := lines[li].(*world.Line)
			li++
			var faults []world.Fault
			for _, f := range e.Faults {
				faults = append(faults, f)
			}
			b := tw.Scan(faults)
			strip := func(cs []world.Call) []world.Call {
				out := []world.Call{}
				for _, c := range cs {
					if c.Op != "describe_asgs" {
						out = append(out, c)
					}
				}
				return out
			}
			il := IsoLine{Ev: "iso", Src: src, ID: a.ID, H: h, Gorder: init.Gorder, CallsA: strip(a.Calls), CallsB: strip(b.Calls), RetA: a.Ret, RetB: b.Ret, Dropped: dropped, FatalSeen: fatal}
			tr.emit(il)
			if a.Ret != "nil" || b.Ret != "nil" || a.Panic || b.Panic || a.Exit || b.Exit {
				fatal = true
			}
			continue
		}
		confined := groupOfEvent(e, init.Gorder) == h
		if e.Ev == "pod_replace" && e.S != h {
			confined = false // the pod moves to another group: not a change confined to h, keep it in both runs
		}
		if e.Ev != "tick" && e.Ev != "restart" && e.Ev != "shuffle" && confined {
			dropped++
			continue
		}
		apply(tw, &e)
	}
}

// faultOf names the fault that makes call c fail.
func faultOf(c world.Call, k map[string]int) (world.Fault, bool) {
	switch c.Op {
	case "get", "update", "delete":
		return world.Fault{Op: c.Op, T: c.N}, true
	case "terminate", "describe_instance":
		return world.Fault{Op: c.Op, T: c.N}, true
	case "list_pods", "list_nodes", "set_desired":
		return world.Fault{Op: c.Op, T: c.G}, true
	}
	return world.Fault{}, false
}

// enumFaults runs the scan fault-free on a clone of the world to learn its calls, then once per call (and per pair of calls)
// with that call failing, each time on a fresh clone. The lines are ordinary scan lines (pre-state = the clone's).
func enumFaults(w *world.World, seed int64, src string, pairs bool) []interface{} {
	var out []interface{}
	st := w.Project()
	clone := func() *world.World {
		c, err := world.Build(seed+7, st.Clone())
		if err != nil {
			return nil
		}
		for g := range st.Groups {
			c.Order[g] = append([]string{}, w.Order[g]...)
		}
		return c
	}
	c0 := clone()
	if c0 == nil {
		return nil
	}
	base := c0.Scan(nil)
	var fl []world.Fault
	seen := map[world.Fault]bool{}
	calls := append([]world.Call{}, base.Calls...)
	for g, ns := range base.Lookups {
		for _, n := range ns {
			calls = append(calls, world.Call{Op: "describe_instance", G: g, N: n})
		}
	}
	for _, c := range calls {
		if f, ok := faultOf(c, nil); ok && !seen[f] {
			seen[f] = true
			fl = append(fl, f)
		}
	}
	run := func(fs []world.Fault, tag string) {
		c := clone()
		if c == nil {
			return
		}
		l := c.Scan(fs)
		l.Src, l.ID = src+tag, 0
		out = append(out, l)
		// after a transient failure (or a crash followed by a restart) the next scan proceeds normally
		if !c.Alive {
			c.Restart()
		}
		l2 := c.Scan(nil)
		l2.Src, l2.ID = src+tag+"+next", 1
		out = append(out, l2)
	}
	nw := 0
	for _, c := range base.Calls {
		switch c.Op {
		case "update", "delete", "terminate", "set_desired", "create_fleet", "attach", "terminate_instances":
			nw++
		}
	}
	for k := 1; k <= nw && k <= 8; k++ { // every crash point of the scan
		run([]world.Fault{{Op: "crash", T: fmt.Sprintf("#%d", k)}}, fmt.Sprintf(":crash%d", k))
	}
	for i, f := range fl {
		run([]world.Fault{f}, fmt.Sprintf(":%d", i))
		if pairs {
			for j := i + 1; j < len(fl); j++ {
				run([]world.Fault{f, fl[j]}, fmt.Sprintf(":%d,%d", i, j))
			}
		}
	}
	return out
}
