package main

import (
	"encoding/json"
	"flag"
	"fmt"
	"math/rand"

	"verif/harness/world"
)

// cmdRoundtrip checks the projection: for random worlds (after some random events and scans), Project(Build(Project(w))) = Project(w).
func cmdRoundtrip(fs *flag.FlagSet, args []string) {
	seed := fs.Int64("seed", 1, "seed")
	n := fs.Int("n", 50, "worlds")
	fs.Parse(args)
	bad := 0
	o := genOpts{maxNodes: 6, maxGroups: 3, steps: 30, faultPct: 10, lag: true, odd: true, profile: "mix", dryPct: 20}
	for i := 0; i < *n; i++ {
		r := rand.New(rand.NewSource(*seed*7919 + int64(i)))
		init := genInit(r, o)
		w, err := world.Build(int64(i), init)
		if err != nil {
			fatal(err)
		}
		next := map[string]int{}
		for k := 0; k < o.steps; k++ {
			e := genStep(r, w, o, next, k)
			if e.Ev == "scan" {
				if !w.Alive {
					w.Restart()
				}
				w.Scan(e.Faults)
			} else {
				apply(w, &e)
			}
		}
		s1 := w.Project()
		w2, err := world.Build(int64(i)+1000, s1)
		if err != nil {
			fatal(err)
		}
		for g := range s1.Groups {
			w2.Order[g] = append([]string{}, s1.Groups[g].Order...)
		}
		s2 := w2.Project()
		b1, _ := json.Marshal(s1)
		b2, _ := json.Marshal(s2)
		if string(b1) != string(b2) {
			bad++
			if bad <= 3 {
				fmt.Printf("ROUNDTRIP MISMATCH world %d\n%s\n%s\n", i, b1, b2)
			}
		}
	}
	fmt.Printf("{\"worlds\":%d,\"mismatches\":%d}\n", *n, bad)
}

func init() { extraCmds["roundtrip"] = cmdRoundtrip }
