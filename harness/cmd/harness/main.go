// Command harness drives the real escalator controller / provider / helper functions and records
// ndjson traces for validation by TLC. See /verif/DESIGN.md.
package main

import (
	"bufio"
	"encoding/json"
	"flag"
	"fmt"
	"os"
	"sync"
)

type out struct {
	mu sync.Mutex
	w  *bufio.Writer
	f  *os.File
	n  int
}

func newOut(path string) *out {
	f, err := os.Create(path)
	if err != nil {
		fatal(err)
	}
	return &out{w: bufio.NewWriterSize(f, 1<<20), f: f}
}

func (o *out) emit(v interface{}) {
	b, err := json.Marshal(v)
	if err != nil {
		fatal(err)
	}
	o.mu.Lock()
	defer o.mu.Unlock()
	o.w.Write(b)
	o.w.WriteByte('\n')
	o.n++
}

func (o *out) close() {
	o.w.Flush()
	o.f.Close()
}

func fatal(v ...interface{}) {
	fmt.Fprintln(os.Stderr, append([]interface{}{"harness:"}, v...)...)
	os.Exit(2)
}

func main() {
	if len(os.Args) < 2 {
		fatal("usage: harness <drive|states|replay|calc|pods|attrib|config|taintobj|awsgroup|faultenum|selftest> [flags]")
	}
	cmd := os.Args[1]
	fs := flag.NewFlagSet(cmd, flag.ExitOnError)
	switch cmd {
	case "drive":
		cmdDrive(fs, os.Args[2:])
	case "states":
		cmdStates(fs, os.Args[2:])
	case "replay":
		cmdReplay(fs, os.Args[2:])
	default:
		if f, ok := extraCmds[cmd]; ok {
			f(fs, os.Args[2:])
			return
		}
		fatal("unknown command", cmd)
	}
}

var extraCmds = map[string]func(*flag.FlagSet, []string){}
