package main

import (
	"bufio"
	"encoding/json"
	"flag"
	"fmt"
	"os"
	"reflect"
	"regexp"
	"strings"

	"github.com/atlassian/escalator/pkg/controller"
)

// CfgCase is one node-group configuration of spec/Config.tla.
type CfgCase struct {
	Src        string `json:"src"`
	Stage      int    `json:"stage"`
	Kind       string `json:"kind"`
	Name       string `json:"name"`
	LabelKey   string `json:"labelKey"`
	LabelValue string `json:"labelValue"`
	CloudGroup string `json:"cloudGroup"`
	Lower      int    `json:"lower"`
	Upper      int    `json:"upper"`
	Up         int    `json:"up"`
	Min        int    `json:"min"`
	Max        int    `json:"max"`
	Slow       int    `json:"slow"`
	Fast       int    `json:"fast"`
	Soft       string `json:"soft"`
	Hard       string `json:"hard"`
	Cool       string `json:"cool"`
	Effect     string `json:"effect"`
	Lifecycle  string `json:"lifecycle"`
	MaxAge     string `json:"maxAge"`
}

type CfgObs struct {
	Ev         string  `json:"ev"`
	Src        string  `json:"src"`
	Case       CfgCase `json:"case"`
	YamlErr    bool    `json:"yamlErr"`
	JsonErr    bool    `json:"jsonErr"`
	SameDecode bool    `json:"sameDecode"` // YAML and JSON decode to the same options
	AsIntended bool    `json:"asIntended"` // and every value written arrived
	Accepted   bool    `json:"accepted"`   // ValidateNodeGroup reported no problem (YAML-decoded)
	AcceptedJ  bool    `json:"acceptedJson"`
	Problems   int     `json:"problems"`
	PairOK     bool    `json:"pairOK"` // in a two-group document the second, sparse group decodes to exactly what it says (YAML and JSON)
	// key records
	Key      string `json:"key"`
	Honoured bool   `json:"honoured"`
}

func (c CfgCase) fields() [][2]string {
	q := func(s string) string { b, _ := json.Marshal(s); return string(b) }
	i := func(v int) string { return fmt.Sprint(v) }
	return [][2]string{
		{"name", q(c.Name)}, {"label_key", q(c.LabelKey)}, {"label_value", q(c.LabelValue)}, {"cloud_provider_group_name", q(c.CloudGroup)},
		{"min_nodes", i(c.Min)}, {"max_nodes", i(c.Max)},
		{"taint_lower_capacity_threshold_percent", i(c.Lower)}, {"taint_upper_capacity_threshold_percent", i(c.Upper)}, {"scale_up_threshold_percent", i(c.Up)},
		{"slow_node_removal_rate", i(c.Slow)}, {"fast_node_removal_rate", i(c.Fast)},
		{"soft_delete_grace_period", q(c.Soft)}, {"hard_delete_grace_period", q(c.Hard)}, {"scale_up_cool_down_period", q(c.Cool)},
		{"taint_effect", q(c.Effect)}, {"max_node_age", q(c.MaxAge)},
	}
}

func (c CfgCase) yaml() string {
	var b strings.Builder
	b.WriteString("node_groups:\n")
	for i, f := range c.fields() {
		if i == 0 {
			b.WriteString("  - " + f[0] + ": " + f[1] + "\n")
		} else {
			b.WriteString("    " + f[0] + ": " + f[1] + "\n")
		}
	}
	lq, _ := json.Marshal(c.Lifecycle)
	b.WriteString("    aws:\n      lifecycle: " + string(lq) + "\n")
	return b.String()
}

func (c CfgCase) json() string {
	var parts []string
	for _, f := range c.fields() {
		parts = append(parts, fmt.Sprintf("%q: %s", f[0], f[1]))
	}
	lq, _ := json.Marshal(c.Lifecycle)
	parts = append(parts, fmt.Sprintf("\"aws\": {\"lifecycle\": %s}", lq))
	return "{\"node_groups\": [{" + strings.Join(parts, ", ") + "}]}"
}

func (c CfgCase) intended(o controller.NodeGroupOptions) bool {
	return o.Name == c.Name && o.LabelKey == c.LabelKey && o.LabelValue == c.LabelValue && o.CloudProviderGroupName == c.CloudGroup &&
		o.MinNodes == c.Min && o.MaxNodes == c.Max && o.TaintLowerCapacityThresholdPercent == c.Lower && o.TaintUpperCapacityThresholdPercent == c.Upper &&
		o.ScaleUpThresholdPercent == c.Up && o.SlowNodeRemovalRate == c.Slow && o.FastNodeRemovalRate == c.Fast && o.SoftDeleteGracePeriod == c.Soft &&
		o.HardDeleteGracePeriod == c.Hard && o.ScaleUpCoolDownPeriod == c.Cool && string(o.TaintEffect) == c.Effect && o.MaxNodeAge == c.MaxAge && o.AWS.Lifecycle == c.Lifecycle
}

func runCfgCase(c CfgCase) CfgObs {
	o := CfgObs{Ev: "cfg", Src: c.Src, Case: c}
	y, yerr := controller.UnmarshalNodeGroupOptions(strings.NewReader(c.yaml()))
	j, jerr := controller.UnmarshalNodeGroupOptions(strings.NewReader(c.json()))
	o.YamlErr, o.JsonErr = yerr != nil || len(y) != 1, jerr != nil || len(j) != 1
	if o.YamlErr || o.JsonErr {
		return o
	}
	o.SameDecode = reflect.DeepEqual(y[0], j[0])
	o.AsIntended = c.intended(y[0]) && c.intended(j[0])
	o.PairOK = true
	sparseY := "  - name: \"second\"\n    min_nodes: 7\n"
	sparseJ := ", {\"name\": \"second\", \"min_nodes\": 7}]}"
	want := controller.NodeGroupOptions{Name: "second", MinNodes: 7}
	if y2, err := controller.UnmarshalNodeGroupOptions(strings.NewReader(c.yaml() + sparseY)); err != nil || len(y2) != 2 || !reflect.DeepEqual(y2[1], want) || !reflect.DeepEqual(y2[0], y[0]) {
		o.PairOK = false
	}
	if j2, err := controller.UnmarshalNodeGroupOptions(strings.NewReader(strings.TrimSuffix(c.json(), "]}") + sparseJ)); err != nil || len(j2) != 2 || !reflect.DeepEqual(j2[1], want) || !reflect.DeepEqual(j2[0], j[0]) {
		o.PairOK = false
	}
	py := controller.ValidateNodeGroup(y[0])
	pj := controller.ValidateNodeGroup(j[0])
	o.Accepted, o.AcceptedJ, o.Problems = len(py) == 0, len(pj) == 0, len(py)
	return o
}

// documented keys: the node group example of docs/configuration/nodegroup.md (first yaml block)
func documentedKeys(repo string) ([][2]string, error) {
	b, err := os.ReadFile(repo + "/docs/configuration/nodegroup.md")
	if err != nil {
		return nil, err
	}
	m := regexp.MustCompile("(?s)```yaml\n(.*?)```").FindSubmatch(b)
	if m == nil {
		return nil, fmt.Errorf("no yaml example in nodegroup.md")
	}
	var keys [][2]string
	inAws := false
	for _, line := range strings.Split(string(m[1]), "\n") {
		t := strings.TrimSpace(strings.TrimPrefix(strings.TrimSpace(line), "- "))
		kv := strings.SplitN(t, ":", 2)
		if len(kv) != 2 || strings.HasPrefix(t, "#") || kv[0] == "node_groups" {
			continue
		}
		k, v := strings.TrimSpace(kv[0]), strings.TrimSpace(kv[1])
		if i := strings.Index(v, " #"); i >= 0 {
			v = strings.TrimSpace(v[:i])
		}
		indent := len(line) - len(strings.TrimLeft(line, " "))
		if k == "aws" {
			inAws = true
			continue
		}
		if inAws && indent >= 6 {
			keys = append(keys, [2]string{"aws." + k, v})
			continue
		}
		inAws = false
		keys = append(keys, [2]string{k, v})
	}
	return keys, nil
}

func runKeyCase(key, val string) CfgObs {
	o := CfgObs{Ev: "cfg", Src: "key:" + key, Key: key, Case: CfgCase{Kind: "key"}}
	// a value that differs from the zero value of the option
	if val == "false" {
		val = "true"
	}
	if val == "" || val == "0" {
		val = "1"
	}
	var doc string
	if strings.HasPrefix(key, "aws.") {
		doc = "node_groups:\n  - aws:\n      " + strings.TrimPrefix(key, "aws.") + ": " + val + "\n"
	} else {
		doc = "node_groups:\n  - " + key + ": " + val + "\n"
	}
	y, err := controller.UnmarshalNodeGroupOptions(strings.NewReader(doc))
	o.YamlErr = err != nil || len(y) != 1
	if !o.YamlErr {
		o.Honoured = !reflect.DeepEqual(y[0], controller.NodeGroupOptions{})
	}
	return o
}

func cmdConfig(fs *flag.FlagSet, args []string) {
	in := fs.String("in", "", "ndjson of cases")
	trace := fs.String("trace", "trace.ndjson", "output")
	repo := fs.String("repo", "/repo", "repository (for the documented keys)")
	fs.Parse(args)
	if r := os.Getenv("VERIF_REPO"); r != "" {
		*repo = r
	}
	f, err := os.Open(*in)
	if err != nil {
		fatal(err)
	}
	defer f.Close()
	tr := newOut(*trace)
	defer tr.close()
	sc := bufio.NewScanner(f)
	sc.Buffer(make([]byte, 1<<20), 1<<26)
	n := 0
	for sc.Scan() {
		var c CfgCase
		if err := json.Unmarshal(sc.Bytes(), &c); err != nil {
			fatal("bad case:", err)
		}
		tr.emit(runCfgCase(c))
		n++
	}
	keys, err := documentedKeys(*repo)
	if err != nil {
		fatal(err)
	}
	for _, kv := range keys {
		tr.emit(runKeyCase(kv[0], kv[1]))
	}
	fmt.Printf("{\"cases\":%d,\"keys\":%d}\n", n, len(keys))
}

func init() { extraCmds["config"] = cmdConfig }
