package main

import (
	"bufio"
	"encoding/json"
	"flag"
	"fmt"
	"os"
	"strings"
	"time"

	"github.com/atlassian/escalator/pkg/cloudprovider"

	"verif/harness/world"
)

// LoopCase drives the controller's own loop (RunForever) over a two-group world.
type LoopCase struct {
	Src       string `json:"src"`
	Stage     int    `json:"stage"`
	Kind      string `json:"kind"`
	FatalAt   int    `json:"fatalAt"`   // at this scan a force-tainted node of the first group turns out not to be in its ASG (0 = never)
	FailAt    int    `json:"failAt"`    // at this scan listing the first group's pods fails (non-fatal; 0 = never)
	StopAfter int    `json:"stopAfter"` // the stop signal is sent when this scan starts
	Immediate bool   `json:"immediate"` // RunForever(runImmediately)
}

type LoopObs struct {
	Ev         string   `json:"ev"`
	Src        string   `json:"src"`
	Case       LoopCase `json:"case"`
	Scans      int      `json:"scans"`      // scans started when RunForever returned
	ScansAfter int      `json:"scansAfter"` // scans started 100 ms later
	BScans     int      `json:"bScans"`     // scans in which the second group was processed
	Ret        string   `json:"ret"`        // notingroup | stopped | error | timeout
	Panic      bool     `json:"panic"`
}

func runLoopCase(c LoopCase) LoopObs {
	o := LoopObs{Ev: "loop", Src: c.Src, Case: c}
	cfg := world.Cfg{Min: 0, Max: 5, Lower: 30, Upper: 45, Up: 90, Slow: 1, Fast: 2, Soft: 1, Hard: 2, Cool: 1} // utilisation stays in the dead band: no lock is ever taken
	node := func(force bool) world.NodeObj {
		return world.NodeObj{Created: -3, Force: force, Pid: "ok", Cpu: 4, Mem: 4}
	}
	st := &world.State{Now: 0, Alive: true, Gorder: []string{"a", "b"}, Groups: map[string]world.Group{}}
	for _, g := range st.Gorder {
		id1, id2 := g+"1", g+"2"
		gs := world.Group{Cfg: cfg, Api: world.NodeMap{id1: node(g == "a"), id2: node(false)}, View: world.NodeMap{}, Order: []string{id1, id2},
			Pods: []world.Pod{{Cpu: 1, Mem: 1, Node: id1, Sched: true}, {Cpu: 2, Mem: 2, Node: id2, Sched: true}},
			Asg:  world.Asg{Min: 0, Max: 5, Desired: 2, Members: []string{id1, id2}}, Accepted: world.Never,
			Ctl:  world.Ctl{LockAt: world.Never, LastOut: world.Never, Tracker: []string{}}}
		gs.Pc = gs.Asg
		st.Groups[g] = gs
	}
	w, err := world.Build(1, st)
	if err != nil {
		o.Ret = "error"
		return o
	}
	w.GoLive()
	stop := make(chan struct{})
	stopped := false
	w.OnScanStart = func(n int) {
		var f []world.Fault
		if n == c.FailAt {
			f = append(f, world.Fault{Op: "list_pods", T: "a"})
		}
		w.J.SetFaults(f)
		if n == c.FatalAt {
			w.PodFinish("a", "a1")
			w.LoseInstance("a", "a1")
		}
		if n == c.StopAfter && !stopped {
			stopped = true
			close(stop)
		}
	}
	w.C.VerifSetLoop(15*time.Millisecond, stop)
	done := make(chan error, 1)
	go func() {
		defer func() {
			if r := recover(); r != nil {
				o.Panic = true
				done <- fmt.Errorf("panic: %v", r)
			}
		}()
		done <- w.C.RunForever(c.Immediate)
	}()
	select {
	case err := <-done:
		switch {
		case err == nil:
			o.Ret = "nil"
		case strings.Contains(err.Error(), "main loop stopped"):
			o.Ret = "stopped"
		default:
			if _, ok := err.(*cloudprovider.NodeNotInNodeGroup); ok {
				o.Ret = "notingroup"
			} else {
				o.Ret = "error"
			}
		}
	case <-time.After(5 * time.Second):
		o.Ret = "timeout"
		if !stopped {
			close(stop)
		}
	}
	o.Scans = w.ScanNo
	time.Sleep(100 * time.Millisecond)
	o.ScansAfter = w.ScanNo
	for _, cl := range w.J.Snapshot() {
		if cl.Op == "list_pods" && cl.G == "b" {
			o.BScans++
		}
	}
	return o
}

func cmdLoop(fs *flag.FlagSet, args []string) {
	in := fs.String("in", "", "ndjson of cases")
	trace := fs.String("trace", "trace.ndjson", "output")
	fs.Parse(args)
	f, err := os.Open(*in)
	if err != nil {
		fatal(err)
	}
	defer f.Close()
	tr := newOut(*trace)
	defer tr.close()
	sc := bufio.NewScanner(f)
	n := 0
	for sc.Scan() {
		var c LoopCase
		if err := json.Unmarshal(sc.Bytes(), &c); err != nil {
			fatal("bad case:", err)
		}
		tr.emit(runLoopCase(c))
		n++
	}
	fmt.Printf("{\"cases\":%d}\n", n)
}

func init() { extraCmds["loop"] = cmdLoop }
