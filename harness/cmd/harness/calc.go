package main

import (
	"bufio"
	"encoding/json"
	"flag"
	"fmt"
	"math"
	"math/rand"
	"os"

	"github.com/atlassian/escalator/pkg/controller"
	"github.com/atlassian/escalator/pkg/k8s"
	v1 "k8s.io/api/core/v1"
	"k8s.io/apimachinery/pkg/api/resource"
	metav1 "k8s.io/apimachinery/pkg/apis/meta/v1"
)

// CalcCase is one case of the arithmetic families (spec/CalcGrid.tla).
type CalcCase struct {
	Src    string `json:"src"`
	Stage  int    `json:"stage"`
	Kind   string `json:"kind"` // delta | pods | nodes
	N      int    `json:"n"`
	Kc     int    `json:"kc"`
	Km     int    `json:"km"`
	T      int    `json:"t"`
	Rc     int    `json:"rc"`
	Rm     int    `json:"rm"`
	Cached bool   `json:"cached"`
	Pods   []CalcPod `json:"pods"`
	Nodes [][2]int64 `json:"nodes"`
}

type CalcPod struct {
	Cs [][2]int64 `json:"cs"`
	Is [][2]int64 `json:"is"`
	Oh [2]int64   `json:"oh"`
}

type CalcObs struct {
	Ev     string   `json:"ev"`
	Src    string   `json:"src"`
	Case   CalcCase `json:"case"`
	Scale  int      `json:"scale"`
	// delta
	PctErr bool `json:"pctErr"`
	CpuPct int  `json:"cpuPct"` // milli-percent, -1 = the "infinite" sentinel
	MemPct int  `json:"memPct"`
	Called bool `json:"called"` // max(cpu%, mem%) > threshold, so the controller would ask for a scale-up delta
	Delta  int  `json:"delta"`
	DErr   bool `json:"dErr"`
	// pods / nodes: totals per permutation (cpu millis, memory bytes)
	Totals [][2]int64 `json:"totals"`
	Styles []int      `json:"styles"`
}

func milliPct(p float64) int {
	if p == math.MaxFloat64 {
		return -1
	}
	v := math.Round(p * 1000)
	if v > 2e9 {
		return 2000000000
	}
	return int(v)
}

// render an integer quantity in one of several notations; falls back to the plain form when the notation cannot express it exactly
func renderCPU(milli int64, style int) resource.Quantity {
	var s string
	switch style % 4 {
	case 0:
		s = fmt.Sprintf("%dm", milli)
	case 1: // cores as a decimal fraction
		s = fmt.Sprintf("%g", float64(milli)/1000)
	case 2:
		if milli%1000 == 0 {
			s = fmt.Sprintf("%d", milli/1000)
		} else {
			s = fmt.Sprintf("%dm", milli)
		}
	case 3:
		s = fmt.Sprintf("%de-3", milli)
	}
	q, err := resource.ParseQuantity(s)
	if err != nil || q.MilliValue() != milli {
		return *resource.NewMilliQuantity(milli, resource.DecimalSI)
	}
	return q
}

func renderMem(bytes int64, style int) resource.Quantity {
	var s string
	switch style % 5 {
	case 0:
		s = fmt.Sprintf("%d", bytes)
	case 1: // largest binary suffix
		s = fmt.Sprintf("%d", bytes)
		for _, u := range []struct {
			n int64
			s string
		}{{1 << 30, "Gi"}, {1 << 20, "Mi"}, {1 << 10, "Ki"}} {
			if bytes != 0 && bytes%u.n == 0 {
				s = fmt.Sprintf("%d%s", bytes/u.n, u.s)
				break
			}
		}
	case 2: // largest decimal suffix
		s = fmt.Sprintf("%d", bytes)
		for _, u := range []struct {
			n int64
			s string
		}{{1000000000, "G"}, {1000000, "M"}, {1000, "k"}} {
			if bytes != 0 && bytes%u.n == 0 {
				s = fmt.Sprintf("%d%s", bytes/u.n, u.s)
				break
			}
		}
	case 3: // a fraction of the next binary unit
		s = fmt.Sprintf("%gGi", float64(bytes)/float64(1<<30))
	case 4:
		s = fmt.Sprintf("%de0", bytes)
	}
	q, err := resource.ParseQuantity(s)
	if err != nil || q.Value() != bytes {
		return *resource.NewQuantity(bytes, resource.BinarySI)
	}
	return q
}

func reqList(v [2]int64, style int) v1.ResourceList {
	rl := v1.ResourceList{}
	if v[0] >= 0 {
		rl[v1.ResourceCPU] = renderCPU(v[0], style)
	}
	if v[1] >= 0 {
		rl[v1.ResourceMemory] = renderMem(v[1], style+1)
	}
	if len(rl) == 0 && style%2 == 0 {
		return nil
	}
	return rl
}

func runCalcCase(c CalcCase, r *rand.Rand) []CalcObs {
	var out []CalcObs
	switch c.Kind {
	case "delta":
		// the same case at the unit scale, at a large scale, and at the scale of a very large group (memory unit 1 TiB: request totals
		// beyond 2^63 / 1e5 milli-bytes, where any widening of the code's integer arithmetic by a factor 100 wraps); ratios stay exact
		for _, sc := range []int{1, 37, 1 << 20} {
			// Quantity.MilliValue() is an int64: beyond 8 388 TiB it saturates in the unchanged code as well (documented limit of the
			// quantity type, DESIGN 12.6), so the 1 TiB scale is applied only where every milli-value stays representable
			if sc == 1<<20 && (c.Rm > 8000 || c.N*c.Km > 8000 || c.Km > 8000) {
				continue
			}
			cpuU, memU := int64(100*sc), int64(sc)<<20
			o := CalcObs{Ev: "calc", Src: c.Src, Case: c, Scale: sc, Totals: [][2]int64{}, Styles: []int{}}
			q := func(v int, u int64, milli bool) resource.Quantity {
				if milli {
					return *resource.NewMilliQuantity(int64(v)*u, resource.DecimalSI)
				}
				return *resource.NewQuantity(int64(v)*u, resource.BinarySI)
			}
			var nodes []*v1.Node
			for i := 0; i < c.N; i++ {
				nodes = append(nodes, &v1.Node{})
			}
			cp, mp, err := controller.VerifCalcPercentUsage(q(c.Rc, cpuU, true), q(c.Rm, memU, false), q(c.N*c.Kc, cpuU, true), q(c.N*c.Km, memU, false), int64(c.N))
			o.PctErr = err != nil
			o.CpuPct, o.MemPct = milliPct(cp), milliPct(mp)
			if err == nil && math.Max(cp, mp) > float64(c.T) {
				o.Called = true
				cc, cm := q(0, 1, true), q(0, 1, false)
				if c.Cached {
					cc, cm = q(c.Kc, cpuU, true), q(c.Km, memU, false)
				}
				d, derr := controller.VerifCalcScaleUpDelta(nodes, cp, mp, q(c.Rc, cpuU, true), q(c.Rm, memU, false), c.T, cc, cm)
				o.Delta, o.DErr = d, derr != nil
			}
			out = append(out, o)
		}
	case "pods":
		o := CalcObs{Ev: "calc", Src: c.Src, Case: c, Scale: 1, Totals: [][2]int64{}, Styles: []int{}}
		for perm := 0; perm < 4; perm++ {
			style := r.Intn(20)
			var pods []*v1.Pod
			for i, p := range c.Pods {
				pod := &v1.Pod{ObjectMeta: metav1.ObjectMeta{Name: fmt.Sprintf("p%d", i)}}
				for _, x := range p.Cs {
					pod.Spec.Containers = append(pod.Spec.Containers, v1.Container{Resources: v1.ResourceRequirements{Requests: reqList(x, style+i)}})
				}
				for _, x := range p.Is {
					pod.Spec.InitContainers = append(pod.Spec.InitContainers, v1.Container{Resources: v1.ResourceRequirements{Requests: reqList(x, style+i+1)}})
				}
				if p.Oh[0] >= 0 || p.Oh[1] >= 0 {
					pod.Spec.Overhead = reqList(p.Oh, style)
				}
				pods = append(pods, pod)
			}
			if perm > 0 {
				r.Shuffle(len(pods), func(i, j int) { pods[i], pods[j] = pods[j], pods[i] })
			}
			u, err := k8s.CalculatePodsRequestedUsage(pods)
			if err != nil {
				o.Totals = append(o.Totals, [2]int64{-1, -1})
			} else {
				o.Totals = append(o.Totals, [2]int64{u.Total.GetCPUQuantity().MilliValue(), u.Total.GetMemoryQuantity().Value()})
			}
			o.Styles = append(o.Styles, style)
		}
		out = append(out, o)
	case "nodes":
		o := CalcObs{Ev: "calc", Src: c.Src, Case: c, Scale: 1, Totals: [][2]int64{}, Styles: []int{}}
		for perm := 0; perm < 4; perm++ {
			style := r.Intn(20)
			var nodes []*v1.Node
			for i, n := range c.Nodes {
				nodes = append(nodes, &v1.Node{ObjectMeta: metav1.ObjectMeta{Name: fmt.Sprintf("n%d", i)}, Status: v1.NodeStatus{Allocatable: reqList(n, style+i)}})
			}
			if perm > 0 {
				r.Shuffle(len(nodes), func(i, j int) { nodes[i], nodes[j] = nodes[j], nodes[i] })
			}
			cap, err := k8s.CalculateNodesCapacity(nodes, nil)
			if err != nil {
				o.Totals = append(o.Totals, [2]int64{-1, -1})
			} else {
				o.Totals = append(o.Totals, [2]int64{cap.Total.GetCPUQuantity().MilliValue(), cap.Total.GetMemoryQuantity().Value()})
			}
			o.Styles = append(o.Styles, style)
		}
		out = append(out, o)
	}
	return out
}

func cmdCalc(fs *flag.FlagSet, args []string) {
	in := fs.String("in", "", "ndjson of cases")
	trace := fs.String("trace", "trace.ndjson", "output")
	seed := fs.Int64("seed", 1, "seed (notations, permutations)")
	fs.Parse(args)
	f, err := os.Open(*in)
	if err != nil {
		fatal(err)
	}
	defer f.Close()
	tr := newOut(*trace)
	defer tr.close()
	r := rand.New(rand.NewSource(*seed))
	sc := bufio.NewScanner(f)
	sc.Buffer(make([]byte, 1<<20), 1<<26)
	n := 0
	for sc.Scan() {
		var c CalcCase
		if err := json.Unmarshal(sc.Bytes(), &c); err != nil {
			fatal("bad case:", err)
		}
		if c.Nodes == nil {
			c.Nodes = [][2]int64{}
		}
		if c.Pods == nil {
			c.Pods = []CalcPod{}
		}
		for i := range c.Pods {
			if c.Pods[i].Cs == nil {
				c.Pods[i].Cs = [][2]int64{}
			}
			if c.Pods[i].Is == nil {
				c.Pods[i].Is = [][2]int64{}
			}
		}
		for _, o := range runCalcCase(c, r) {
			tr.emit(o)
		}
		n++
	}
	fmt.Printf("{\"cases\":%d}\n", n)
}

func init() { extraCmds["calc"] = cmdCalc }
