package main

import (
	"bufio"
	"encoding/json"
	"flag"
	"fmt"
	"os"

	"verif/harness/world"
)

// StateCase is one abstract state to build and scan once.
type StateCase struct {
	Src    string        `json:"src"`
	State  *world.State  `json:"state"`
	Faults []world.Fault `json:"faults"`
	Twin   bool          `json:"twin"`
}

// cmdStates builds every abstract state of the input, runs one real scan on it and records the line.
func cmdStates(fs *flag.FlagSet, args []string) {
	in := fs.String("in", "", "ndjson of {src,state,faults}")
	trace := fs.String("trace", "trace.ndjson", "output")
	seed := fs.Int64("seed", 1, "seed (lister interleaving, pod order)")
	fs.Parse(args)
	f, err := os.Open(*in)
	if err != nil {
		fatal(err)
	}
	defer f.Close()
	tr := newOut(*trace)
	defer tr.close()
	sc := bufio.NewScanner(f)
	sc.Buffer(make([]byte, 1<<20), 1<<26)
	n := 0
	for sc.Scan() {
		var c StateCase
		if err := json.Unmarshal(sc.Bytes(), &c); err != nil {
			fatal("bad state case:", err)
		}
		w, err := world.Build(*seed+int64(n), c.State)
		if err != nil {
			fatal("build:", err)
		}
		var twin *world.TwinObs
		if c.Twin {
			twin = twinScan(w, *seed)
		}
		line := w.Scan(c.Faults)
		line.Src, line.ID, line.Twin = c.Src, n, twin
		tr.emit(line)
		n++
	}
	fmt.Printf("{\"states\":%d}\n", n)
}
