package world

import (
	"fmt"
	"sort"
	"strconv"
	"strings"
	"sync"
	"time"

	"github.com/aws/aws-sdk-go/aws"
	"github.com/aws/aws-sdk-go/service/autoscaling"
	"github.com/aws/aws-sdk-go/service/autoscaling/autoscalingiface"
	"github.com/aws/aws-sdk-go/service/ec2"
	"github.com/aws/aws-sdk-go/service/ec2/ec2iface"
)

// Journal records every call the code under test makes, in order, and decides injected faults.
type Journal struct {
	mu     sync.Mutex
	Calls  []Call
	faults []Fault
	count  map[string]int // calls per op in the current scan
	CurG   func() string  // group whose scan is in progress
	NowFn  func() int     // current virtual tick (nil: 0)
	SlowFn func()         // a slow cloud call: lets one tick pass (nil: nothing)
}

func NewJournal() *Journal { return &Journal{count: map[string]int{}} }

// Begin starts a new scan with the given fault set.
func (j *Journal) Begin(f []Fault) {
	j.mu.Lock()
	defer j.mu.Unlock()
	j.Calls = nil
	j.faults = f
	j.count = map[string]int{}
}

// Hit counts one call of kind op on target and says whether it must fail.
func (j *Journal) Hit(op, target string) bool {
	j.mu.Lock()
	defer j.mu.Unlock()
	j.count[op]++
	k := "#" + strconv.Itoa(j.count[op])
	for _, f := range j.faults {
		if f.Op == op && (f.T == target || f.T == k || f.T == "all") {
			return true
		}
	}
	return false
}

// HitOnce is Hit for faults that strike the first matching call of the scan only (a write that loses a race once).
func (j *Journal) HitOnce(op, target string) bool {
	j.mu.Lock()
	defer j.mu.Unlock()
	key := "__once:" + op + ":" + target
	if j.count[key] > 0 {
		return false
	}
	for _, f := range j.faults {
		if f.Op == op && f.T == target {
			j.count[key]++
			return true
		}
	}
	return false
}

// CrashSentinel is the panic value with which the harness kills the scan at a crash point.
type CrashSentinel struct{}

// MaybeCrash is called at every write site before the write is performed: the process dies just before its k-th write call
// of the scan when the fault (crash, "#k") is set.
func (j *Journal) MaybeCrash() {
	j.mu.Lock()
	j.count["__write"]++
	k := "#" + strconv.Itoa(j.count["__write"])
	die := false
	for _, f := range j.faults {
		if f.Op == "crash" && f.T == k {
			die = true
		}
	}
	j.mu.Unlock()
	if die {
		panic(CrashSentinel{})
	}
}

func (j *Journal) Add(c Call) {
	if c.R == nil {
		c.R = [][]int{}
	}
	if j.NowFn != nil {
		c.T = j.NowFn()
	}
	j.mu.Lock()
	defer j.mu.Unlock()
	j.Calls = append(j.Calls, c)
}

// SetFaults replaces the fault set without clearing the journal (used when the controller's own loop drives the scans).
func (j *Journal) SetFaults(f []Fault) {
	j.mu.Lock()
	defer j.mu.Unlock()
	j.faults = f
	j.count = map[string]int{}
}

func (j *Journal) Snapshot() []Call {
	j.mu.Lock()
	defer j.mu.Unlock()
	return append([]Call{}, j.Calls...)
}

func b2i(b bool) int {
	if b {
		return 1
	}
	return 0
}

// ---------------------------------------------------------------- simulated auto scaling + EC2

type SimInst struct {
	ID          string
	Launch      time.Time
	Terminating bool
}

type SimASG struct {
	Group     string // escalator node group name
	Name      string
	Min, Max  int64
	Desired   int64
	Instances []SimInst
	Subnets   string
	Tagged    bool
	Linger    bool // terminated instances stay listed (Terminating) until InstanceGone
}

type SimAWS struct {
	autoscalingiface.AutoScalingAPI
	mu      sync.Mutex
	J       *Journal
	Asgs    map[string]*SimASG // by ASG name
	FleetN  int                // next fleet instance number
	Loose   map[string]SimInst // instances acquired from a fleet and not (yet) attached
	Killed  map[string]bool    // instances submitted to TerminateInstances
	NeverReady bool
	ReadyK     int // with NeverReady: the first ReadyK instances of the latest fleet do report running
	lastFleetLo, lastFleetN int
	OnDescribe func()
}

type SimEC2 struct {
	ec2iface.EC2API
	A *SimAWS
}

func NewSimAWS(j *Journal) (*SimAWS, *SimEC2) {
	a := &SimAWS{J: j, Asgs: map[string]*SimASG{}, Loose: map[string]SimInst{}, Killed: map[string]bool{}}
	return a, &SimEC2{A: a}
}

func AsgName(group string) string { return "asg-" + group }

func (s *SimAWS) groupOfAsg(name string) string { return strings.TrimPrefix(name, "asg-") }

func (s *SimAWS) DescribeAutoScalingGroups(in *autoscaling.DescribeAutoScalingGroupsInput) (*autoscaling.DescribeAutoScalingGroupsOutput, error) {
	if s.OnDescribe != nil {
		s.OnDescribe()
	}
	s.mu.Lock()
	defer s.mu.Unlock()
	fail := s.J.Hit("describe_asgs", "")
	s.J.Add(Call{Op: "describe_asgs", Ok: !fail})
	if fail {
		return nil, fmt.Errorf("injected: DescribeAutoScalingGroups failed")
	}
	out := &autoscaling.DescribeAutoScalingGroupsOutput{}
	for _, n := range in.AutoScalingGroupNames {
		a, ok := s.Asgs[*n]
		if !ok {
			continue
		}
		g := &autoscaling.Group{AutoScalingGroupName: aws.String(a.Name), MinSize: aws.Int64(a.Min), MaxSize: aws.Int64(a.Max),
			DesiredCapacity: aws.Int64(a.Desired), VPCZoneIdentifier: aws.String(a.Subnets)}
		if a.Tagged {
			g.Tags = []*autoscaling.TagDescription{{Key: aws.String("k8s.io/atlassian-escalator/enabled"), Value: aws.String("true")}}
		}
		for _, i := range a.Instances {
			st := "InService"
			if i.Terminating {
				st = "Terminating"
			}
			g.Instances = append(g.Instances, &autoscaling.Instance{InstanceId: aws.String(i.ID), AvailabilityZone: aws.String("az1"), LifecycleState: aws.String(st)})
		}
		out.AutoScalingGroups = append(out.AutoScalingGroups, g)
	}
	return out, nil
}

func (s *SimAWS) CreateOrUpdateTags(in *autoscaling.CreateOrUpdateTagsInput) (*autoscaling.CreateOrUpdateTagsOutput, error) {
	s.mu.Lock()
	defer s.mu.Unlock()
	g := ""
	if len(in.Tags) > 0 && in.Tags[0].ResourceId != nil {
		g = s.groupOfAsg(*in.Tags[0].ResourceId)
		if a, ok := s.Asgs[*in.Tags[0].ResourceId]; ok {
			a.Tagged = true
		}
	}
	s.J.Add(Call{Op: "tags", G: g, Ok: true})
	return &autoscaling.CreateOrUpdateTagsOutput{}, nil
}

func (s *SimAWS) SetDesiredCapacity(in *autoscaling.SetDesiredCapacityInput) (*autoscaling.SetDesiredCapacityOutput, error) {
	s.J.MaybeCrash()
	s.mu.Lock()
	defer s.mu.Unlock()
	a, ok := s.Asgs[aws.StringValue(in.AutoScalingGroupName)]
	if !ok {
		s.J.Add(Call{Op: "set_desired", G: aws.StringValue(in.AutoScalingGroupName), Ok: false, A: int(aws.Int64Value(in.DesiredCapacity)), B: -1, S: "unknown-asg"})
		return nil, fmt.Errorf("ValidationError: AutoScalingGroup name not found")
	}
	fail := s.J.Hit("set_desired", a.Group)
	v := aws.Int64Value(in.DesiredCapacity)
	c := Call{Op: "set_desired", G: a.Group, N: s.J.CurG(), A: int(v), B: int(a.Desired)}
	switch {
	case fail:
		c.S = "injected"
	case v > a.Max || v < a.Min:
		c.S = "bounds"
	default:
		c.Ok = true
		a.Desired = v
		if s.J.SlowFn != nil && s.J.HitOnce("slow", a.Group) { // the call takes one tick to be answered
			s.J.SlowFn()
		}
	}
	s.J.Add(c)
	if !c.Ok {
		return nil, fmt.Errorf("ValidationError: SetDesiredCapacity refused (%s)", c.S)
	}
	return &autoscaling.SetDesiredCapacityOutput{}, nil
}

func (s *SimAWS) TerminateInstanceInAutoScalingGroup(in *autoscaling.TerminateInstanceInAutoScalingGroupInput) (*autoscaling.TerminateInstanceInAutoScalingGroupOutput, error) {
	s.J.MaybeCrash()
	s.mu.Lock()
	defer s.mu.Unlock()
	id := aws.StringValue(in.InstanceId)
	dec := in.ShouldDecrementDesiredCapacity != nil && *in.ShouldDecrementDesiredCapacity
	fail := s.J.Hit("terminate", id)
	c := Call{Op: "terminate", N: id, A: b2i(dec)}
	var owner *SimASG
	idx := -1
	for _, name := range SortedKeys(s.Asgs) {
		a := s.Asgs[name]
		for i, inst := range a.Instances {
			if inst.ID == id {
				owner, idx = a, i
			}
		}
	}
	switch {
	case in.InstanceId == nil:
		c.S = "nil-id"
	case owner == nil:
		c.S = "unknown-instance"
	case owner.Instances[idx].Terminating:
		c.G, c.S = owner.Group, "terminating"
	case fail:
		c.G, c.S = owner.Group, "injected"
	case dec && owner.Desired-1 < owner.Min:
		c.G, c.S = owner.Group, "min"
	default:
		c.G, c.Ok = owner.Group, true
		c.B = b2i(owner.Group == s.J.CurG())
		if dec {
			owner.Desired--
		}
		if owner.Linger {
			owner.Instances[idx].Terminating = true
		} else {
			owner.Instances = append(owner.Instances[:idx:idx], owner.Instances[idx+1:]...)
		}
	}
	s.J.Add(c)
	if !c.Ok {
		return nil, fmt.Errorf("ValidationError: TerminateInstanceInAutoScalingGroup refused (%s)", c.S)
	}
	return &autoscaling.TerminateInstanceInAutoScalingGroupOutput{Activity: &autoscaling.Activity{Description: aws.String("terminating " + id)}}, nil
}

// idRuns encodes fleet instance ids "f<k>" as maximal consecutive runs, in call order (at most 64 runs).
func idRuns(ids []*string) [][]int {
	runs := [][]int{}
	for _, p := range ids {
		k, err := strconv.Atoi(strings.TrimPrefix(aws.StringValue(p), "f"))
		if err != nil {
			k = -1
		}
		if n := len(runs); n > 0 && runs[n-1][1]+1 == k {
			runs[n-1][1] = k
			continue
		}
		if len(runs) >= 64 {
			break
		}
		runs = append(runs, []int{k, k})
	}
	return runs
}

// idRange describes a list of fleet instance ids "f<k>": lo, hi and whether they are consecutive.
func idRange(ids []*string) (lo, hi int, contig bool, desc string) {
	if len(ids) == 0 {
		return 0, -1, true, ""
	}
	nums := make([]int, 0, len(ids))
	var raw []string
	contig = true
	for _, p := range ids {
		s := aws.StringValue(p)
		raw = append(raw, s)
		k, err := strconv.Atoi(strings.TrimPrefix(s, "f"))
		if err != nil || !strings.HasPrefix(s, "f") {
			contig = false
			k = -1
		}
		nums = append(nums, k)
	}
	for i := 1; i < len(nums); i++ {
		if nums[i] != nums[i-1]+1 {
			contig = false
		}
	}
	if !contig {
		sort.Strings(raw)
		if len(raw) > 50 {
			raw = raw[:50]
		}
		return nums[0], nums[len(nums)-1], false, strings.Join(raw, ",")
	}
	return nums[0], nums[len(nums)-1], true, ""
}

func (s *SimAWS) AttachInstances(in *autoscaling.AttachInstancesInput) (*autoscaling.AttachInstancesOutput, error) {
	s.J.MaybeCrash()
	s.mu.Lock()
	defer s.mu.Unlock()
	a, ok := s.Asgs[aws.StringValue(in.AutoScalingGroupName)]
	lo, hi, contig, desc := idRange(in.InstanceIds)
	c := Call{Op: "attach", A: lo, B: hi, N: strconv.Itoa(len(in.InstanceIds)), R: idRuns(in.InstanceIds)}
	if !contig {
		c.S = "noncontig:" + desc
	}
	if !ok {
		c.S += "unknown-asg"
		s.J.Add(c)
		return nil, fmt.Errorf("ValidationError: AutoScalingGroup name not found")
	}
	c.G = a.Group
	fail := s.J.Hit("attach", a.Group)
	switch {
	case fail:
		c.S += "injected"
	case len(in.InstanceIds) == 0:
		c.S += "empty"
	case len(in.InstanceIds) > 20:
		c.S += "limit20"
	case a.Desired+int64(len(in.InstanceIds)) > a.Max:
		c.S += "max"
	default:
		for _, p := range in.InstanceIds {
			if _, loose := s.Loose[*p]; !loose {
				c.S += "not-attachable:" + *p
			}
		}
		if !strings.Contains(c.S, "not-attachable") {
			c.Ok = true
			for _, p := range in.InstanceIds {
				a.Instances = append(a.Instances, s.Loose[*p])
				delete(s.Loose, *p)
			}
			a.Desired += int64(len(in.InstanceIds))
		}
	}
	s.J.Add(c)
	if !c.Ok {
		return nil, fmt.Errorf("ValidationError: AttachInstances refused (%s)", c.S)
	}
	return &autoscaling.AttachInstancesOutput{}, nil
}

func (e *SimEC2) DescribeInstances(in *ec2.DescribeInstancesInput) (*ec2.DescribeInstancesOutput, error) {
	s := e.A
	s.mu.Lock()
	defer s.mu.Unlock()
	id := ""
	if len(in.InstanceIds) > 0 {
		id = aws.StringValue(in.InstanceIds[0])
	}
	fail := s.J.Hit("describe_instance", id)
	c := Call{Op: "describe_instance", N: id, G: s.J.CurG()}
	var found *SimInst
	for _, a := range s.Asgs {
		for i := range a.Instances {
			if a.Instances[i].ID == id {
				found = &a.Instances[i]
			}
		}
	}
	if fail || found == nil {
		if fail {
			c.S = "injected"
		} else {
			c.S = "unknown-instance"
		}
		s.J.Add(c)
		return nil, fmt.Errorf("InvalidInstanceID.NotFound (%s)", c.S)
	}
	c.Ok = true
	s.J.Add(c)
	t := found.Launch
	return &ec2.DescribeInstancesOutput{Reservations: []*ec2.Reservation{{Instances: []*ec2.Instance{{InstanceId: aws.String(id), LaunchTime: &t}}}}}, nil
}

func (e *SimEC2) CreateFleet(in *ec2.CreateFleetInput) (*ec2.CreateFleetOutput, error) {
	e.A.J.MaybeCrash()
	s := e.A
	s.mu.Lock()
	defer s.mu.Unlock()
	g := s.J.CurG()
	fail := s.J.Hit("create_fleet", g)
	total, minT, lifecycle, single := int64(-1), int64(-1), "", false
	if in.TargetCapacitySpecification != nil {
		total = aws.Int64Value(in.TargetCapacitySpecification.TotalTargetCapacity)
		lifecycle = aws.StringValue(in.TargetCapacitySpecification.DefaultTargetCapacityType)
	}
	both := in.OnDemandOptions != nil && in.SpotOptions != nil
	if in.OnDemandOptions != nil {
		minT = aws.Int64Value(in.OnDemandOptions.MinTargetCapacity)
		single = aws.BoolValue(in.OnDemandOptions.SingleInstanceType)
		if lifecycle != "on-demand" {
			both = true // options of the wrong kind
		}
	}
	if in.SpotOptions != nil {
		minT = aws.Int64Value(in.SpotOptions.MinTargetCapacity)
		single = aws.BoolValue(in.SpotOptions.SingleInstanceType)
		if lifecycle != "spot" {
			both = true
		}
	}
	nOver, tmpl := 0, ""
	for _, cfg := range in.LaunchTemplateConfigs {
		nOver += len(cfg.Overrides)
		if cfg.LaunchTemplateSpecification != nil {
			tmpl = aws.StringValue(cfg.LaunchTemplateSpecification.LaunchTemplateId) + "@" + aws.StringValue(cfg.LaunchTemplateSpecification.Version)
		}
	}
	// S = lifecycle; R = [[single instance type, type instant], [number of overrides, options of the wrong kind], [tag specs, template given]]
	c := Call{Op: "create_fleet", G: g, A: int(total), B: int(minT), S: lifecycle,
		R: [][]int{{b2i(single), b2i(aws.StringValue(in.Type) == "instant" && !aws.BoolValue(in.TerminateInstancesWithExpiration))}, {nOver, b2i(both)}, {len(in.TagSpecifications), b2i(tmpl == "lt-1@7" || tmpl == "lt-1@1")}}}
	if fail {
		s.J.Add(c)
		return nil, fmt.Errorf("injected: CreateFleet failed")
	}
	if s.J.Hit("create_fleet_none", g) {
		// all-or-nothing: capacity not available -> no instances, errors in the response
		s.J.Add(c)
		return &ec2.CreateFleetOutput{Errors: []*ec2.CreateFleetError{{ErrorCode: aws.String("InsufficientInstanceCapacity"), ErrorMessage: aws.String("no capacity")}}}, nil
	}
	c.Ok = true
	s.J.Add(c)
	lo := s.FleetN
	s.lastFleetLo, s.lastFleetN = lo, int(total)
	out := &ec2.CreateFleetOutput{}
	// spread the ids over two response entries to exercise the caller's flattening; also attach a
	// spurious error, which the caller must ignore when instances are present
	var cur *ec2.CreateFleetInstance
	for i := int64(0); i < total; i++ {
		if i == 0 || i == total/2 {
			cur = &ec2.CreateFleetInstance{}
			out.Instances = append(out.Instances, cur)
		}
		id := "f" + strconv.Itoa(s.FleetN)
		s.FleetN++
		s.Loose[id] = SimInst{ID: id, Launch: time.Now()}
		cur.InstanceIds = append(cur.InstanceIds, aws.String(id))
	}
	if total > 0 && total%2 == 0 {
		out.Errors = []*ec2.CreateFleetError{{ErrorCode: aws.String("Spurious"), ErrorMessage: aws.String("spurious error with instances present")}}
	}
	s.J.Add(Call{Op: "fleet_ids", G: g, Ok: true, A: lo, B: s.FleetN - 1})
	return out, nil
}

func (e *SimEC2) DescribeInstanceStatusPages(in *ec2.DescribeInstanceStatusInput, fn func(*ec2.DescribeInstanceStatusOutput, bool) bool) error {
	s := e.A
	s.mu.Lock()
	never := s.NeverReady || s.J.Hit("status", s.J.CurG())
	s.J.Add(Call{Op: "status", G: s.J.CurG(), Ok: !never, A: len(in.InstanceIds), B: b2i(aws.BoolValue(in.IncludeAllInstances))})
	s.mu.Unlock()
	readyK, fleetLo := s.ReadyK, s.lastFleetLo
	if readyK > s.lastFleetN-1 { // "never" means: at least one instance stays pending
		readyK = s.lastFleetN - 1
	}
	stateOf := func(id *string) string {
		if !never {
			return "running"
		}
		if k, err := strconv.Atoi(strings.TrimPrefix(aws.StringValue(id), "f")); err == nil && k-fleetLo < readyK {
			return "running"
		}
		return "pending"
	}
	mk := func(ids []*string) *ec2.DescribeInstanceStatusOutput {
		o := &ec2.DescribeInstanceStatusOutput{}
		for _, id := range ids {
			o.InstanceStatuses = append(o.InstanceStatuses, &ec2.InstanceStatus{InstanceId: id, InstanceState: &ec2.InstanceState{Name: aws.String(stateOf(id))}})
		}
		return o
	}
	ids := in.InstanceIds
	if len(ids) > 1 {
		h := len(ids) / 2
		if !fn(mk(ids[:h]), false) {
			return nil
		}
		fn(mk(ids[h:]), true)
		return nil
	}
	fn(mk(ids), true)
	return nil
}

func (e *SimEC2) TerminateInstances(in *ec2.TerminateInstancesInput) (*ec2.TerminateInstancesOutput, error) {
	e.A.J.MaybeCrash()
	s := e.A
	s.mu.Lock()
	defer s.mu.Unlock()
	g := s.J.CurG()
	fail := s.J.Hit("terminate_instances", g)
	lo, hi, contig, desc := idRange(in.InstanceIds)
	c := Call{Op: "terminate_instances", G: g, A: lo, B: hi, N: strconv.Itoa(len(in.InstanceIds)), R: idRuns(in.InstanceIds)}
	if !contig {
		c.S = "noncontig:" + desc
	}
	switch {
	case fail:
		c.S += "injected"
	case len(in.InstanceIds) > 1000:
		c.S += "limit1000"
	default:
		c.Ok = true
		for _, p := range in.InstanceIds {
			s.Killed[*p] = true
			delete(s.Loose, *p)
		}
	}
	s.J.Add(c)
	if !c.Ok {
		return nil, fmt.Errorf("TerminateInstances refused (%s)", c.S)
	}
	return &ec2.TerminateInstancesOutput{}, nil
}
