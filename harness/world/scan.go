package world

import (
	"encoding/json"
	"fmt"
	"math"
	"sort"
	"time"

	"github.com/atlassian/escalator/pkg/cloudprovider"
	"github.com/atlassian/escalator/pkg/metrics"
	"github.com/prometheus/client_golang/prometheus"
	dto "github.com/prometheus/client_model/go"
	log "github.com/sirupsen/logrus"
	v1 "k8s.io/api/core/v1"
)

type exitSentinel struct{ code int }

func init() {
	log.SetLevel(log.PanicLevel)
	// logrus.Fatalf calls ExitFunc after logging; turn the process exit into a recoverable event.
	log.StandardLogger().ExitFunc = func(code int) { panic(exitSentinel{code}) }
}

func gaugeValue(g prometheus.Gauge) float64 {
	var m dto.Metric
	if err := g.Write(&m); err != nil || m.Gauge == nil {
		return math.NaN()
	}
	return m.Gauge.GetValue()
}

const gaugeUnset = -12345

func (w *World) armGauges() {
	for _, g := range w.Gorder {
		metrics.NodeGroupCPURequest.WithLabelValues(g).Set(gaugeUnset)
		metrics.NodeGroupMemRequest.WithLabelValues(g).Set(gaugeUnset)
		metrics.NodeGroupCPUCapacity.WithLabelValues(g).Set(gaugeUnset)
		metrics.NodeGroupMemCapacity.WithLabelValues(g).Set(gaugeUnset)
		metrics.NodeGroupsCPUPercent.WithLabelValues(g).Set(gaugeUnset)
		metrics.NodeGroupsMemPercent.WithLabelValues(g).Set(gaugeUnset)
		metrics.NodeGroupScaleDelta.WithLabelValues(g).Set(gaugeUnset)
		metrics.NodeGroupNodes.WithLabelValues(g).Set(gaugeUnset)
		metrics.NodeGroupNodesCordoned.WithLabelValues(g).Set(gaugeUnset)
		metrics.NodeGroupNodesUntainted.WithLabelValues(g).Set(gaugeUnset)
		metrics.NodeGroupNodesTainted.WithLabelValues(g).Set(gaugeUnset)
		metrics.NodeGroupNodesForceTainted.WithLabelValues(g).Set(gaugeUnset)
		metrics.NodeGroupPods.WithLabelValues(g).Set(gaugeUnset)
	}
}

func (w *World) readGauges() map[string]Gauges {
	r := map[string]Gauges{}
	for _, g := range w.Gorder {
		cr := gaugeValue(metrics.NodeGroupCPURequest.WithLabelValues(g))
		mr := gaugeValue(metrics.NodeGroupMemRequest.WithLabelValues(g))
		cc := gaugeValue(metrics.NodeGroupCPUCapacity.WithLabelValues(g))
		mc := gaugeValue(metrics.NodeGroupMemCapacity.WithLabelValues(g))
		d := gaugeValue(metrics.NodeGroupScaleDelta.WithLabelValues(g))
		cp := gaugeValue(metrics.NodeGroupsCPUPercent.WithLabelValues(g))
		mp := gaugeValue(metrics.NodeGroupsMemPercent.WithLabelValues(g))
		cnt := func(v prometheus.Gauge) int {
			x := gaugeValue(v)
			if x == gaugeUnset {
				return -1
			}
			return int(x)
		}
		out := Gauges{Delta: int(d), NAll: cnt(metrics.NodeGroupNodes.WithLabelValues(g)), NCord: cnt(metrics.NodeGroupNodesCordoned.WithLabelValues(g)),
			NUnt: cnt(metrics.NodeGroupNodesUntainted.WithLabelValues(g)), NTaint: cnt(metrics.NodeGroupNodesTainted.WithLabelValues(g)),
			NForce: cnt(metrics.NodeGroupNodesForceTainted.WithLabelValues(g)), NPods: cnt(metrics.NodeGroupPods.WithLabelValues(g))}
		if cr != gaugeUnset && cc != gaugeUnset {
			out.Set = true
			out.CpuReq, out.CpuCap = int(int64(cr)/CpuUnit), int(int64(cc)/CpuUnit)
			out.MemReq, out.MemCap = int(int64(mr)/MemUnit), int(int64(mc)/MemUnit)
			out.Exact = int64(cr)%CpuUnit == 0 && int64(cc)%CpuUnit == 0 && int64(mr)%MemUnit == 0 && int64(mc)%MemUnit == 0
		}
		out.PctSet = cp != gaugeUnset && mp != gaugeUnset
		if out.PctSet {
			out.CpuPct, out.MemPct = milli(cp), milli(mp)
		}
		r[g] = out
	}
	return r
}

func milli(p float64) int {
	v := math.Round(p * 1000)
	if v > 2e9 {
		return 2000000000
	}
	return int(v)
}

// prepareSnapshot freezes what the listers will return during the scan: API content (or the lagging
// view), nodes in the per-group order of w.Order, groups interleaved, pods shuffled.
func (w *World) prepareSnapshot() {
	all := w.listNodes()
	// like an informer cache, the listers hand out the same object for as long as the API object is unchanged: whatever the
	// code under test does to a listed object is still there at the next scan
	seen := map[string]bool{}
	for i, n := range all {
		all[i] = w.cached("node:"+n.Name, n, seen).(*v1.Node)
	}
	byName := map[string]*v1.Node{}
	var rest []*v1.Node
	for _, n := range all {
		g, ok := w.groupOfNode(n)
		if ok && w.LagView[g] != nil {
			continue // served from the lagging view instead
		}
		if ok {
			byName[n.Name] = n
		} else {
			rest = append(rest, n)
		}
	}
	for _, lv := range w.LagView {
		for id, n := range lv {
			byName[id] = w.cached("lag:"+id, n.DeepCopy(), seen).(*v1.Node)
		}
	}
	var perGroup [][]*v1.Node
	for _, g := range w.Gorder {
		var l []*v1.Node
		for _, id := range w.Order[g] {
			if n, ok := byName[id]; ok {
				l = append(l, n)
			}
		}
		perGroup = append(perGroup, l)
	}
	// interleave the groups (keeping each group's relative order) and the noise nodes
	w.snapNodes = nil
	idx := make([]int, len(perGroup))
	for {
		var avail []int
		for i := range perGroup {
			if idx[i] < len(perGroup[i]) {
				avail = append(avail, i)
			}
		}
		if len(avail) == 0 {
			break
		}
		i := avail[w.Rng.Intn(len(avail))]
		w.snapNodes = append(w.snapNodes, perGroup[i][idx[i]])
		idx[i]++
	}
	for _, n := range rest {
		at := w.Rng.Intn(len(w.snapNodes) + 1)
		w.snapNodes = append(w.snapNodes[:at:at], append([]*v1.Node{n}, w.snapNodes[at:]...)...)
	}
	w.snapPods = w.listPods()
	for i, p := range w.snapPods {
		w.snapPods[i] = w.cached("pod:"+p.Namespace+"/"+p.Name, p, seen).(*v1.Pod)
	}
	for k := range w.objCache {
		if !seen[k] {
			delete(w.objCache, k)
		}
	}
	w.Rng.Shuffle(len(w.snapPods), func(i, j int) { w.snapPods[i], w.snapPods[j] = w.snapPods[j], w.snapPods[i] })
}

type cachedObj struct {
	obj  interface{}
	hash string
}

// cached returns the object handed out before under this key if the fresh copy has the same content, else the fresh copy.
func (w *World) cached(key string, fresh interface{}, seen map[string]bool) interface{} {
	seen[key] = true
	b, _ := json.Marshal(fresh)
	h := string(b)
	if w.objCache == nil {
		w.objCache = map[string]cachedObj{}
	}
	if c, ok := w.objCache[key]; ok && c.hash == h {
		return c.obj
	}
	w.objCache[key] = cachedObj{obj: fresh, hash: h}
	return fresh
}

// ScanTimeout bounds one RunOnce (fleet paths wait on a 1 s ticker; a failed refresh sleeps 5 s twice).
var ScanTimeout = 40 * time.Second

// Scan runs the real RunOnce once with the given faults and returns the trace line.
func (w *World) Scan(faults []Fault) *Line {
	if faults == nil {
		faults = []Fault{}
	}
	line := &Line{Ev: "scan", Faults: faults, Ret: "nil", Lookups: map[string][]string{}}
	line.Pre = w.Project()
	w.prepareSnapshot()
	w.armGauges()
	w.curIdx = -1
	w.J.Begin(faults)
	type result struct {
		err   error
		panic interface{}
	}
	done := make(chan result, 1)
	c := w.C
	go func() {
		var r result
		defer func() {
			if p := recover(); p != nil {
				r.panic = p
			}
			done <- r
		}()
		r.err = c.RunOnce()
	}()
	select {
	case r := <-done:
		if r.panic != nil {
			if _, ok := r.panic.(exitSentinel); ok {
				line.Exit = true
			} else if _, ok := r.panic.(CrashSentinel); ok {
				line.Crash = true
			} else {
				line.Panic = true
				line.PanicMsg = fmt.Sprint(r.panic)
			}
			line.Ret = "error"
		} else if r.err != nil {
			if _, ok := r.err.(*cloudprovider.NodeNotInNodeGroup); ok {
				line.Ret = "notingroup"
			} else {
				line.Ret = "error"
			}
		}
	case <-time.After(ScanTimeout):
		line.Hang = true
		line.Ret = "error"
	}
	calls := w.J.Snapshot()
	w.J.Begin(nil)
	w.curIdx = -1
	// split off the cloud look-ups (their order is a Go map iteration)
	line.Calls = []Call{}
	for _, c := range calls {
		if c.Op == "describe_instance" {
			line.Lookups[c.G] = append(line.Lookups[c.G], c.N)
			continue
		}
		// fleet path: readiness polls depend on timing (drop "not ready" polls, collapse the others); counts and refusal reasons are not modelled
		if c.Op == "status" {
			if !c.Ok || (len(line.Calls) > 0 && line.Calls[len(line.Calls)-1].Op == "status") {
				continue
			}
		}
		if c.Op == "attach" || c.Op == "terminate_instances" {
			c.N, c.S = "", ""
		}
		line.Calls = append(line.Calls, c)
	}
	for _, g := range w.Gorder {
		if line.Lookups[g] == nil {
			line.Lookups[g] = []string{}
		}
		sort.Strings(line.Lookups[g])
	}
	// ghost: the node size this controller lifetime observed last (first listed node of a scan whose node list succeeded)
	for _, g := range w.Gorder {
		listed := false
		for _, c := range calls {
			if c.Op == "list_nodes" && c.G == g && c.Ok {
				listed = true
			}
		}
		if gs := line.Pre.Groups[g]; listed && len(gs.Order) > 0 && !line.Crash {
			v := gs.ViewOf()[gs.Order[0]]
			w.Seen[g] = [2]int{v.Cpu, v.Mem}
		}
	}
	// ghost: a cloud-accepted scale-up
	for _, g := range w.Gorder {
		if ok, at := acceptedScaleUp(calls, g); ok {
			w.Accepted[g] = at
		}
	}
	if line.Ret == "notingroup" || line.Exit || line.Crash {
		w.Alive = false
	}
	if !w.NoGauges {
		line.Gauges = w.readGauges()
		if MemUnit == int64(1)<<40 {
			line.MemShift = 20
		}
	} else {
		line.Gauges = map[string]Gauges{}
		for _, g := range w.Gorder {
			line.Gauges[g] = Gauges{NAll: -1, NCord: -1, NUnt: -1, NTaint: -1, NForce: -1, NPods: -1}
		}
	}
	if RealTime && time.Now().After(w.T0.Add(time.Duration(w.Now)*Tick+Tick/4)) {
		w.Late = true
	}
	line.Post = w.Project()
	return line
}

// acceptedScaleUp: the provider accepted an increase for g in this scan (IncreaseSize returned nil).
func acceptedScaleUp(calls []Call, g string) (bool, int) {
	fleet, attachOK, attachFail, at := false, 0, 0, 0
	for _, c := range calls {
		if c.G != g {
			continue
		}
		switch c.Op {
		case "set_desired":
			if c.Ok {
				return true, c.T
			}
		case "create_fleet":
			fleet = c.Ok
		case "attach":
			if c.Ok {
				attachOK++
				at = c.T
			} else {
				attachFail++
			}
		}
	}
	return fleet && attachOK > 0 && attachFail == 0, at
}

// Writes counts the mutating calls per group in a call list.
func Writes(calls []Call) map[string]int {
	r := map[string]int{}
	for _, c := range calls {
		switch c.Op {
		case "update", "delete", "terminate", "set_desired", "create_fleet", "attach", "terminate_instances":
			r[c.G]++
		}
	}
	return r
}
