package world

import (
	"context"
	"fmt"
	"math"
	"math/rand"
	"sort"
	"strconv"
	"strings"
	"time"

	"github.com/atlassian/escalator/pkg/cloudprovider"
	awsp "github.com/atlassian/escalator/pkg/cloudprovider/aws"
	"github.com/atlassian/escalator/pkg/controller"
	v1 "k8s.io/api/core/v1"
	apierrors "k8s.io/apimachinery/pkg/api/errors"
	"k8s.io/apimachinery/pkg/api/resource"
	metav1 "k8s.io/apimachinery/pkg/apis/meta/v1"
	"k8s.io/apimachinery/pkg/labels"
	"k8s.io/apimachinery/pkg/runtime"
	"k8s.io/apimachinery/pkg/runtime/schema"
	"k8s.io/client-go/kubernetes/fake"
	listerv1 "k8s.io/client-go/listers/core/v1"
	core "k8s.io/client-go/testing"
)

// Tick is the concrete length of one abstract tick. In the default mode time is virtual (one hour, produced by moving every
// stored instant into the past). In real-time mode (RealTime) a tick is a few seconds of real sleeping, so that any time the
// code under test remembers ages by itself (memory the harness does not know about included).
var (
	Tick     = time.Hour
	RealTime = false
)

const (
	LabelKey    = "grp"
	TaintKey    = "atlassian.com/escalator"
	ForceKey    = "atlassian.com/escalator-force"
	NoDeleteKey = "atlassian.com/no-delete"
	CpuUnit     = int64(100)     // milli-cores per abstract cpu unit
	NS          = "ns"
)

// MemUnit: bytes per abstract memory unit. 1 MiB by default; `drive -huge` makes it 1 TiB (a power of two, so every
// float64 ratio the code computes is bit-identical) to put group totals beyond 2^63 / 1e5 milli-bytes.
var MemUnit = int64(1 << 20)

var nodeGVR = v1.SchemeGroupVersion.WithResource("nodes")
var podGVR = v1.SchemeGroupVersion.WithResource("pods")

// World is one simulated cluster + cloud with the real controller and the real AWS provider on top.
type World struct {
	Now      int
	DryAll   bool
	Alive    bool
	Gorder   []string
	Cfgs     map[string]Cfg
	K        *fake.Clientset
	J        *Journal
	AWS      *SimAWS
	EC2      *SimEC2
	Provider *awsp.CloudProvider
	C        *controller.Controller
	Accepted map[string]int
	Seen     map[string][2]int // ghost: last observed node size per group in this controller lifetime
	Rng      *rand.Rand

	// lister snapshot of the scan in progress
	snapNodes []*v1.Node
	objCache  map[string]cachedObj // informer-like identity of listed objects across scans
	snapPods  []*v1.Pod
	curIdx    int // index in Gorder of the group being scanned (-1 before the first)
	// per group: lagging lister view (nil = none) and the order used by the current scan
	LagView map[string]map[string]*v1.Node
	Order   map[string][]string
	podSeq  int
	podSeqG map[string]int
	lastGet map[string]*v1.Node
	liveNewScan bool
	Live        bool            // the controller's own loop (RunForever) drives the scans: the listers refresh themselves at each scan start
	ScanNo      int             // Live: scans started so far
	OnScanStart func(scan int)  // Live: called at the start of each scan, before the lister snapshot is taken
	T0      time.Time // real-time mode: concrete time of abstract instant 0
	Late    bool      // real-time mode: a step overran its tick budget; the history is no longer trustworthy
	NoGauges bool
}

type builder struct{ w *World }

func (b builder) Build() (cloudprovider.CloudProvider, error) { return b.w.Provider, nil }

// ---------------------------------------------------------------- instants

// TimeOf returns the concrete time of abstract instant x.
func (w *World) TimeOf(x int) time.Time {
	if x <= Never {
		return time.Time{}
	}
	if RealTime {
		return w.T0.Add(time.Duration(x) * Tick)
	}
	return time.Now().Add(-time.Duration(w.Now-x) * Tick)
}

// TickOf returns the abstract instant of concrete time t.
func (w *World) TickOf(t time.Time) int {
	if t.IsZero() {
		return Never
	}
	age := math.Round(float64(time.Since(t)) / float64(Tick))
	x := float64(w.Now) - age
	if RealTime {
		x = math.Round(float64(t.Sub(w.T0)) / float64(Tick))
	}
	if x > FarFuture {
		return FarFuture
	}
	if x < Never { // anything before "never" is just "far past" (e.g. the taint value "0")
		return FarPast
	}
	return int(x)
}

// Durations for thresholds are placed at half ticks so that neither scan latency nor truncation to
// seconds can decide a comparison.
func durAbove(ticks int) string { // "age > d"  <=> ageTicks > ticks
	return fmt.Sprintf("%dms", (time.Duration(ticks)*Tick+Tick/2)/time.Millisecond)
}
func durBelow(ticks int) string { // "age < d"  <=> ageTicks < ticks
	return fmt.Sprintf("%dms", (time.Duration(ticks)*Tick-Tick/2)/time.Millisecond)
}

func (c Cfg) Options(name string) controller.NodeGroupOptions {
	o := controller.NodeGroupOptions{
		Name: name, LabelKey: LabelKey, LabelValue: name, CloudProviderGroupName: AsgName(name),
		MinNodes: c.Min, MaxNodes: c.Max, DryMode: c.Dry, ScaleOnStarve: c.Starve,
		TaintLowerCapacityThresholdPercent: c.Lower, TaintUpperCapacityThresholdPercent: c.Upper, ScaleUpThresholdPercent: c.Up,
		SlowNodeRemovalRate: c.Slow, FastNodeRemovalRate: c.Fast,
		SoftDeleteGracePeriod: durAbove(c.Soft), HardDeleteGracePeriod: durAbove(c.Hard), ScaleUpCoolDownPeriod: durBelow(c.Cool),
		TaintEffect: v1.TaintEffect(c.Effect),
	}
	if c.Auto {
		o.MinNodes, o.MaxNodes = 0, 0
	}
	if c.MaxAge > 0 {
		o.MaxNodeAge = durAbove(c.MaxAge)
	}
	if c.Fleet {
		o.AWS.LaunchTemplateID = "lt-1"
		o.AWS.LaunchTemplateVersion = "1"
		o.AWS.FleetInstanceReadyTimeout = "1500ms"
	}
	return o
}

// ---------------------------------------------------------------- listers (harness owned)

type nodeLister struct{ w *World }

func (l nodeLister) List(labels.Selector) ([]*v1.Node, error) {
	w := l.w
	g := w.curGroup()
	fail := w.J.Hit("list_nodes", g)
	w.J.Add(Call{Op: "list_nodes", G: g, Ok: !fail})
	if fail {
		return nil, fmt.Errorf("injected: node lister failed")
	}
	return w.snapNodes, nil
}
func (l nodeLister) Get(name string) (*v1.Node, error) { return nil, fmt.Errorf("not implemented") }

type podLister struct{ w *World }

func (l podLister) List(labels.Selector) ([]*v1.Pod, error) {
	w := l.w
	if w.Live && w.liveNewScan {
		// first group of a new scan (the scan began with the provider refresh, see GoLive)
		w.liveNewScan = false
		w.Project()
		w.prepareSnapshot()
		w.curIdx = -1
	}
	w.curIdx++ // every group scan starts by listing pods
	g := w.curGroup()
	fail := w.J.Hit("list_pods", g)
	w.J.Add(Call{Op: "list_pods", G: g, Ok: !fail})
	if fail {
		return nil, fmt.Errorf("injected: pod lister failed")
	}
	return w.snapPods, nil
}
func (l podLister) Pods(string) listerv1.PodNamespaceLister { return nil }

func (w *World) curGroup() string {
	if w.curIdx >= 0 && w.curIdx < len(w.Gorder) {
		return w.Gorder[w.curIdx]
	}
	return "?"
}

// ---------------------------------------------------------------- construction

// NewWorld builds an empty world (no nodes, no pods) with the given groups and ASG bounds.
func NewWorld(seed int64, gorder []string, cfgs map[string]Cfg, asgs map[string]Asg, dryAll bool) (*World, error) {
	w := &World{Alive: true, DryAll: dryAll, Gorder: append([]string{}, gorder...), Cfgs: cfgs, Accepted: map[string]int{}, Seen: map[string][2]int{},
		Rng: rand.New(rand.NewSource(seed)), LagView: map[string]map[string]*v1.Node{}, Order: map[string][]string{}, curIdx: -1, lastGet: map[string]*v1.Node{}}
	w.J = NewJournal()
	w.J.CurG = w.curGroup
	w.J.NowFn = func() int { return w.Now }
	w.J.SlowFn = func() {
		if !RealTime {
			w.TickEnv()
		}
	}
	w.AWS, w.EC2 = NewSimAWS(w.J)
	w.AWS.ReadyK = 1 // a fleet that misses its readiness deadline does so with one instance already running (when it has more than one)
	w.K = fake.NewSimpleClientset()
	w.K.PrependReactor("*", "nodes", w.nodeReactor)
	for _, g := range gorder {
		a := asgs[g]
		w.AWS.Asgs[AsgName(g)] = &SimASG{Group: g, Name: AsgName(g), Min: int64(a.Min), Max: int64(a.Max), Desired: int64(a.Desired), Subnets: "subnet-a,subnet-b", Linger: a.Linger}
		w.Accepted[g] = Never
	}
	if err := w.newController(); err != nil {
		return nil, err
	}
	return w, nil
}

func (w *World) newController() error {
	var cfgs []cloudprovider.NodeGroupConfig
	var opts []controller.NodeGroupOptions
	for _, g := range w.Gorder {
		o := w.Cfgs[g].Options(g)
		opts = append(opts, o)
		cfgs = append(cfgs, cloudprovider.NodeGroupConfig{Name: g, GroupID: AsgName(g), AWSConfig: cloudprovider.AWSNodeGroupConfig{
			LaunchTemplateID: o.AWS.LaunchTemplateID, LaunchTemplateVersion: o.AWS.LaunchTemplateVersion,
			FleetInstanceReadyTimeout: o.AWS.FleetInstanceReadyTimeoutDuration(), Lifecycle: o.AWS.Lifecycle,
			InstanceTypeOverrides: o.AWS.InstanceTypeOverrides, ResourceTagging: o.AWS.ResourceTagging}})
	}
	w.J.Begin(nil)
	p, err := awsp.VerifNewCloudProvider(w.AWS, w.EC2, cfgs...)
	if err != nil {
		return err
	}
	w.Provider = p
	w.C = controller.VerifNewController(w.K, podLister{w}, nodeLister{w}, p, builder{w}, opts, w.DryAll)
	// NewController copies the discovered bounds once at start-up; mirror that.
	for _, g := range w.Gorder {
		if w.Cfgs[g].Auto {
			st := w.C.VerifState(g)
			_ = st
		}
	}
	return nil
}

// Restart replaces the controller (and provider) by fresh objects over the same world.
func (w *World) Restart() error {
	for _, g := range w.Gorder {
		w.Accepted[g] = Never
		w.Seen[g] = [2]int{0, 0}
	}
	w.Alive = true
	return w.newController()
}

// ---------------------------------------------------------------- node / pod objects

func providerID(kind, id string) string {
	switch kind {
	case "empty":
		return ""
	case "short":
		return "aws:/" + id
	}
	return "aws:///az1/" + id
}

func pidKind(pid string) string {
	if pid == "" {
		return "empty"
	}
	if len(strings.Split(pid, "/")) < 5 {
		return "short"
	}
	return "ok"
}

func otherEffect(e v1.TaintEffect) v1.TaintEffect {
	if e == v1.TaintEffectNoExecute {
		return v1.TaintEffectPreferNoSchedule
	}
	return v1.TaintEffectNoExecute
}

func (w *World) taintValue(t Taint, id string) string {
	if !t.Ok { // any value that is not a decimal integer is unreadable; some of them look like numbers
		h := 0
		for _, c := range id {
			h = h*37 + int(c)
		}
		return []string{"not-a-number-" + id, "NaN", "1e3", "1.5", "Inf", " 1700000000", "0x10", "-"}[h%8]
	}
	if t.At <= Never {
		return "0"
	}
	if t.At >= FarFuture {
		return "99999999999999"
	}
	return strconv.FormatInt(w.TimeOf(t.At).Unix(), 10)
}

// MakeNode renders an abstract node object as a v1.Node, with foreign taints / labels / annotations
// that the abstract state ignores and that escalator must preserve.
func (w *World) MakeNode(g, id string, o NodeObj) *v1.Node {
	n := &v1.Node{ObjectMeta: metav1.ObjectMeta{Name: id, Labels: map[string]string{LabelKey: g, "zone": "az1", "verif/id": id},
		Annotations: map[string]string{"verif/note": "keep-" + id}, CreationTimestamp: metav1.NewTime(w.TimeOf(o.Created))},
		Spec: v1.NodeSpec{ProviderID: providerID(o.Pid, id), Unschedulable: o.Cordoned}}
	h := 0
	for _, c := range id {
		h = h*31 + int(c)
	}
	if h%2 == 0 {
		n.Spec.Taints = append(n.Spec.Taints, v1.Taint{Key: "foreign/a", Value: "x", Effect: v1.TaintEffectPreferNoSchedule})
	}
	if o.Force {
		n.Spec.Taints = append(n.Spec.Taints, v1.Taint{Key: ForceKey, Value: "1", Effect: v1.TaintEffectNoSchedule})
	}
	if o.Taint.Has {
		eff := v1.TaintEffect(w.Cfgs[g].Effect)
		if eff == "" {
			eff = v1.TaintEffectNoSchedule
		}
		if h%2 == 1 { // put there by someone else, or under an earlier configuration: another effect than the group's
			eff = otherEffect(eff)
		}
		n.Spec.Taints = append(n.Spec.Taints, v1.Taint{Key: TaintKey, Value: w.taintValue(o.Taint, id), Effect: eff})
	}
	if h%3 == 0 {
		n.Spec.Taints = append(n.Spec.Taints, v1.Taint{Key: "foreign/b", Value: "y", Effect: v1.TaintEffectNoSchedule})
	}
	if o.Nodel { // any non-empty value protects, also one that is only white space
		n.Annotations[NoDeleteKey] = []string{"keep me", " ", "true", "\t "}[h%4]
	} else if h%5 == 0 {
		n.Annotations[NoDeleteKey] = "" // empty value = unprotected
	}
	if o.Cpu != 0 || o.Mem != 0 || h%2 == 0 {
		n.Status.Allocatable = v1.ResourceList{
			v1.ResourceCPU:    *resource.NewMilliQuantity(int64(o.Cpu)*CpuUnit, resource.DecimalSI),
			v1.ResourceMemory: memQuantity(o.Mem, h),
			v1.ResourcePods:   *resource.NewQuantity(110, resource.DecimalSI)}
	} // else: allocatable missing altogether
	return n
}

// ProjectNode maps a v1.Node to its abstract object.
func (w *World) ProjectNode(n *v1.Node) NodeObj {
	o := NodeObj{Created: w.TickOf(n.CreationTimestamp.Time), Cordoned: n.Spec.Unschedulable, Pid: pidKind(n.Spec.ProviderID)}
	for _, t := range n.Spec.Taints {
		switch t.Key {
		case ForceKey:
			o.Force = true
		case TaintKey:
			if !o.Taint.Has { // the code reads the first one
				o.Taint.Has = true
				if v, err := strconv.ParseInt(t.Value, 10, 64); err == nil {
					o.Taint.Ok = true
					o.Taint.At = w.TickOf(time.Unix(v, 0))
				}
			}
		}
	}
	if n.Annotations[NoDeleteKey] != "" {
		o.Nodel = true
	}
	o.Cpu = int(n.Status.Allocatable.Cpu().MilliValue() / CpuUnit)
	o.Mem = int(n.Status.Allocatable.Memory().Value() / MemUnit)
	return o
}

// memQuantity: every other node reports its memory the way kubelets of fractional sizes do ("7.5Gi"), which the resource
// package holds in its arbitrary-precision form instead of the int64 form
func memQuantity(u int, h int) resource.Quantity {
	if h%2 == 1 && u > 0 {
		q, err := resource.ParseQuantity(strconv.FormatFloat(float64(u)/1024, 'f', -1, 64) + "Gi")
		if err == nil && q.Value() == int64(u)*MemUnit {
			return q
		}
	}
	return *resource.NewQuantity(int64(u)*MemUnit, resource.BinarySI)
}

func qCpu(u int) resource.Quantity { return *resource.NewMilliQuantity(int64(u)*CpuUnit, resource.DecimalSI) }
func qMem(u int) resource.Quantity { return *resource.NewQuantity(int64(u)*MemUnit, resource.BinarySI) }

// MakePod renders an abstract pod of group g as a v1.Pod. The way the pod selects its group and the
// way its request is spread over containers / init containers / overhead vary with k.
func (w *World) MakePod(g string, p Pod, k int) *v1.Pod {
	w.podSeq++
	if w.podSeqG == nil {
		w.podSeqG = map[string]int{}
	}
	w.podSeqG[g]++ // names are numbered per group, so that what happens in one group never renames (or reorders) another group's pods
	pod := &v1.Pod{ObjectMeta: metav1.ObjectMeta{Name: fmt.Sprintf("p-%s-%05d", g, w.podSeqG[g]), Namespace: NS,
		Annotations: map[string]string{"verif/group": g, "verif/cpu": strconv.Itoa(p.Cpu), "verif/mem": strconv.Itoa(p.Mem)},
		OwnerReferences: []metav1.OwnerReference{{Kind: "ReplicaSet", Name: "rs"}}},
		Spec: v1.PodSpec{NodeName: p.Node}}
	if g != controller.DefaultNodeGroup {
		switch k % 3 {
		case 0:
			pod.Spec.NodeSelector = map[string]string{LabelKey: g}
		case 1:
			pod.Spec.Affinity = &v1.Affinity{NodeAffinity: &v1.NodeAffinity{RequiredDuringSchedulingIgnoredDuringExecution: &v1.NodeSelector{NodeSelectorTerms: []v1.NodeSelectorTerm{
				{MatchExpressions: []v1.NodeSelectorRequirement{{Key: LabelKey, Operator: v1.NodeSelectorOpIn, Values: []string{"other", g}}}}}}}}
		case 2:
			pod.Spec.NodeSelector = map[string]string{LabelKey: g, "zone": "az1"}
		}
	}
	req := func(c, m int) v1.ResourceRequirements {
		return v1.ResourceRequirements{Requests: v1.ResourceList{v1.ResourceCPU: qCpu(c), v1.ResourceMemory: qMem(m)}}
	}
	switch {
	case k%4 == 1 && p.Cpu >= 2 && p.Mem >= 2: // two containers + smaller init container
		pod.Spec.Containers = []v1.Container{{Name: "a", Resources: req(1, p.Mem-1)}, {Name: "b", Resources: req(p.Cpu-1, 1)}}
		pod.Spec.InitContainers = []v1.Container{{Name: "i", Resources: req(1, 1)}}
	case k%4 == 2 && p.Cpu >= 2 && p.Mem >= 2: // init container dominates; overhead adds one unit
		pod.Spec.Containers = []v1.Container{{Name: "a", Resources: req(1, 1)}}
		pod.Spec.InitContainers = []v1.Container{{Name: "i", Resources: req(p.Cpu-1, p.Mem-1)}}
		pod.Spec.Overhead = v1.ResourceList{v1.ResourceCPU: qCpu(1), v1.ResourceMemory: qMem(1)}
	default:
		pod.Spec.Containers = []v1.Container{{Name: "a", Resources: req(p.Cpu, p.Mem)}}
	}
	setPodStatus(pod, p)
	return pod
}

func setPodStatus(pod *v1.Pod, p Pod) {
	pod.Spec.NodeName = p.Node
	if p.Pending {
		pod.Status.Phase = v1.PodPending
	} else {
		pod.Status.Phase = v1.PodRunning
	}
	st := v1.ConditionFalse
	if p.Sched {
		st = v1.ConditionTrue
	}
	pod.Status.Conditions = []v1.PodCondition{{Type: v1.PodScheduled, Status: st}}
}

// noise objects: pods that must not be counted for any configured group
func (w *World) addDaemonPod(g, node string) {
	w.podSeq++
	pod := &v1.Pod{ObjectMeta: metav1.ObjectMeta{Name: fmt.Sprintf("ds%d", w.podSeq), Namespace: NS, Annotations: map[string]string{"verif/group": ""},
		OwnerReferences: []metav1.OwnerReference{{Kind: "DaemonSet", Name: "ds"}}},
		Spec: v1.PodSpec{NodeName: node, Containers: []v1.Container{{Name: "d", Resources: v1.ResourceRequirements{Requests: v1.ResourceList{v1.ResourceCPU: qCpu(1), v1.ResourceMemory: qMem(1)}}}}},
		Status: v1.PodStatus{Phase: v1.PodRunning}}
	if g != controller.DefaultNodeGroup {
		pod.Spec.NodeSelector = map[string]string{LabelKey: g}
	}
	_ = w.K.Tracker().Add(pod)
}

func (w *World) addNoise() {
	mk := func(name string, f func(*v1.Pod)) {
		pod := &v1.Pod{ObjectMeta: metav1.ObjectMeta{Name: name, Namespace: NS, Annotations: map[string]string{"verif/group": ""}},
			Spec:   v1.PodSpec{Containers: []v1.Container{{Name: "x", Resources: v1.ResourceRequirements{Requests: v1.ResourceList{v1.ResourceCPU: qCpu(3), v1.ResourceMemory: qMem(3)}}}}},
			Status: v1.PodStatus{Phase: v1.PodPending}}
		f(pod)
		_ = w.K.Tracker().Add(pod)
	}
	mk("noise-othergroup", func(p *v1.Pod) { p.Spec.NodeSelector = map[string]string{LabelKey: "not-configured"} })
	mk("noise-otherkey", func(p *v1.Pod) { p.Spec.NodeSelector = map[string]string{"zone": "az1"} })
	mk("noise-static", func(p *v1.Pod) { p.Annotations["kubernetes.io/config.source"] = "file" })
	mk("noise-notin", func(p *v1.Pod) {
		var vals []string
		for _, g := range w.Gorder {
			vals = append(vals, g)
		}
		p.Spec.Affinity = &v1.Affinity{NodeAffinity: &v1.NodeAffinity{RequiredDuringSchedulingIgnoredDuringExecution: &v1.NodeSelector{NodeSelectorTerms: []v1.NodeSelectorTerm{
			{MatchExpressions: []v1.NodeSelectorRequirement{{Key: LabelKey, Operator: v1.NodeSelectorOpNotIn, Values: vals}}}}}}}
	})
	mk("noise-podaffinity", func(p *v1.Pod) { p.Spec.Affinity = &v1.Affinity{PodAntiAffinity: &v1.PodAntiAffinity{}} })
	n := &v1.Node{ObjectMeta: metav1.ObjectMeta{Name: "noise-node", Labels: map[string]string{LabelKey: "not-configured"}, CreationTimestamp: metav1.NewTime(time.Now().Add(-1000 * Tick))},
		Spec: v1.NodeSpec{ProviderID: "aws:///az1/noise-node"}, Status: v1.NodeStatus{Allocatable: v1.ResourceList{v1.ResourceCPU: qCpu(50), v1.ResourceMemory: qMem(50)}}}
	_ = w.K.Tracker().Add(n)
}

// Build constructs a world from an abstract state.
func Build(seed int64, s *State) (*World, error) {
	cfgs := map[string]Cfg{}
	asgs := map[string]Asg{}
	for g, gs := range s.Groups {
		cfgs[g] = gs.Cfg
		asgs[g] = gs.Asg
	}
	w, err := NewWorld(seed, s.Gorder, cfgs, asgs, s.DryAll)
	if err != nil {
		return nil, err
	}
	w.Now = s.Now
	w.T0 = time.Now().Truncate(time.Second).Add(-time.Duration(s.Now) * Tick)
	w.Alive = s.Alive
	w.addNoise()
	for _, g := range s.Gorder {
		gs := s.Groups[g]
		// first give the cloud the content of the provider cache, so that the refresh below loads it
		a := w.AWS.Asgs[AsgName(g)]
		a.Min, a.Max, a.Desired = int64(gs.Pc.Min), int64(gs.Pc.Max), int64(gs.Pc.Desired)
		for _, id := range gs.Pc.Members {
			a.Instances = append(a.Instances, SimInst{ID: id, Launch: w.TimeOf(w.Now - 1)})
		}
		for _, id := range SortedKeys(gs.Api) {
			if err := w.K.Tracker().Add(w.MakeNode(g, id, gs.Api[id])); err != nil {
				return nil, err
			}
			w.addDaemonPod(g, id)
		}
		for i, p := range gs.Pods {
			if err := w.K.Tracker().Add(w.MakePod(g, p, i)); err != nil {
				return nil, err
			}
		}
		if gs.Lag {
			lv := map[string]*v1.Node{}
			for id, o := range gs.View {
				lv[id] = w.MakeNode(g, id, o)
			}
			w.LagView[g] = lv
		}
		w.Order[g] = append([]string{}, gs.Order...)
		w.Accepted[g] = gs.Accepted
		w.Seen[g] = [2]int{gs.SeenCpu, gs.SeenMem}
	}
	// provider cache: refresh once so that it knows the instances, then force the logged cache if it differs
	w.J.Begin(nil)
	if err := w.Provider.Refresh(); err != nil {
		return nil, err
	}
	for _, g := range s.Gorder {
		gs := s.Groups[g]
		// now the real cloud state (may differ from the cache: stale cache)
		a := w.AWS.Asgs[AsgName(g)]
		a.Min, a.Max, a.Desired = int64(gs.Asg.Min), int64(gs.Asg.Max), int64(gs.Asg.Desired)
		a.Instances = nil
		term := map[string]bool{}
		for _, id := range gs.Asg.Terminating {
			term[id] = true
		}
		for _, id := range gs.Asg.Members {
			a.Instances = append(a.Instances, SimInst{ID: id, Launch: w.TimeOf(w.Now - 1), Terminating: term[id]})
		}
		c := gs.Ctl
		w.C.VerifSetState(g, controller.VerifGroupState{IsLocked: c.IsLocked, LockSet: c.LockAt > Never, LockAge: time.Duration(w.Now-c.LockAt) * Tick,
			Requested: c.Requested, ScaleDelta: c.Delta, LastOutSet: c.LastOut > Never, LastOutAge: time.Duration(w.Now-c.LastOut) * Tick,
			CPUCapMilli: int64(c.CapCpu) * CpuUnit, MemCapBytes: int64(c.CapMem) * MemUnit, TaintTracker: c.Tracker,
			SetBounds: gs.Cfg.Auto, MinNodes: c.MinEff, MaxNodes: c.MaxEff})
	}
	return w, nil
}

// ---------------------------------------------------------------- projection

func (w *World) listNodes() []*v1.Node {
	nl, _ := w.K.Tracker().List(nodeGVR, v1.SchemeGroupVersion.WithKind("Node"), "")
	var r []*v1.Node
	for i := range nl.(*v1.NodeList).Items {
		r = append(r, nl.(*v1.NodeList).Items[i].DeepCopy())
	}
	sort.Slice(r, func(i, j int) bool { return r[i].Name < r[j].Name })
	return r
}

func (w *World) listPods() []*v1.Pod {
	pl, _ := w.K.Tracker().List(podGVR, v1.SchemeGroupVersion.WithKind("Pod"), NS)
	var r []*v1.Pod
	for i := range pl.(*v1.PodList).Items {
		r = append(r, pl.(*v1.PodList).Items[i].DeepCopy())
	}
	sort.Slice(r, func(i, j int) bool { return r[i].Name < r[j].Name })
	return r
}

func stripPid(p string) string {
	parts := strings.Split(p, "/")
	return parts[len(parts)-1]
}

// Project maps the concrete world to the abstract state.
func (w *World) Project() *State {
	s := &State{Now: w.Now, DryAll: w.DryAll, Alive: w.Alive, Gorder: append([]string{}, w.Gorder...), Groups: map[string]Group{}}
	nodes := w.listNodes()
	pods := w.listPods()
	for _, g := range w.Gorder {
		gs := Group{Cfg: w.Cfgs[g], Api: NodeMap{}, Pods: []Pod{}, Accepted: w.Accepted[g], SeenCpu: w.Seen[g][0], SeenMem: w.Seen[g][1]}
		for _, n := range nodes {
			if n.Labels[LabelKey] == g {
				gs.Api[n.Name] = w.ProjectNode(n)
			}
		}
		gs.View = NodeMap{}
		if lv := w.LagView[g]; lv != nil {
			gs.Lag = true
			for id, n := range lv {
				gs.View[id] = w.ProjectNode(n)
			}
		}
		for _, p := range pods {
			if p.Annotations["verif/group"] != g {
				continue
			}
			c, _ := strconv.Atoi(p.Annotations["verif/cpu"])
			m, _ := strconv.Atoi(p.Annotations["verif/mem"])
			ap := Pod{Cpu: c, Mem: m, Node: p.Spec.NodeName, Pending: p.Status.Phase == v1.PodPending}
			for _, cond := range p.Status.Conditions {
				if cond.Type == v1.PodScheduled && cond.Status == v1.ConditionTrue {
					ap.Sched = true
				}
			}
			gs.Pods = append(gs.Pods, ap)
		}
		sort.Slice(gs.Pods, func(i, j int) bool { return fmt.Sprint(gs.Pods[i]) < fmt.Sprint(gs.Pods[j]) })
		a := w.AWS.Asgs[AsgName(g)]
		gs.Asg = Asg{Min: int(a.Min), Max: int(a.Max), Desired: int(a.Desired), Members: []string{}, Terminating: []string{}, Linger: a.Linger}
		for _, i := range a.Instances {
			gs.Asg.Members = append(gs.Asg.Members, i.ID)
			if i.Terminating {
				gs.Asg.Terminating = append(gs.Asg.Terminating, i.ID)
			}
		}
		sort.Strings(gs.Asg.Members)
		sort.Strings(gs.Asg.Terminating)
		gs.Pc = Asg{Members: []string{}, Terminating: []string{}, Linger: a.Linger}
		if ng, ok := w.Provider.GetNodeGroup(AsgName(g)); ok {
			gs.Pc.Min, gs.Pc.Max, gs.Pc.Desired = int(ng.MinSize()), int(ng.MaxSize()), int(ng.TargetSize())
			for _, p := range ng.Nodes() {
				gs.Pc.Members = append(gs.Pc.Members, stripPid(p))
			}
			sort.Strings(gs.Pc.Members)
		}
		gs.Tries = w.Provider.VerifTerminateTries(AsgName(g))
		st := w.C.VerifState(g)
		gs.Ctl = Ctl{IsLocked: st.IsLocked, Requested: st.Requested, Delta: st.ScaleDelta, LockAt: Never, LastOut: Never,
			CapCpu: int(st.CPUCapMilli / CpuUnit), CapMem: int(st.MemCapBytes / MemUnit), Tracker: append([]string{}, st.TaintTracker...),
			MinEff: st.MinNodes, MaxEff: st.MaxNodes}
		if st.LockSet {
			gs.Ctl.LockAt = w.Now - int(math.Round(float64(st.LockAge)/float64(Tick)))
		}
		if st.LastOutSet {
			gs.Ctl.LastOut = w.Now - int(math.Round(float64(st.LastOutAge)/float64(Tick)))
		}
		// order: the order the node lister will use for this group
		view := gs.ViewOf()
		var order []string
		for _, id := range w.Order[g] {
			if _, ok := view[id]; ok {
				order = append(order, id)
			}
		}
		for _, id := range SortedKeys(view) {
			found := false
			for _, o := range order {
				if o == id {
					found = true
				}
			}
			if !found {
				order = append(order, id)
			}
		}
		gs.Order = order
		if gs.Order == nil {
			gs.Order = []string{}
		}
		w.Order[g] = order
		s.Groups[g] = gs
	}
	return s
}

// ShuffleOrdersSeeded picks a lister order for every group that depends only on the seed and the group (not on other groups).
func (w *World) ShuffleOrdersSeeded(seed int64) {
	for _, g := range w.Gorder {
		h := int64(0)
		for _, c := range g {
			h = h*131 + int64(c)
		}
		r := rand.New(rand.NewSource(seed ^ h))
		o := append([]string{}, w.Order[g]...)
		sort.Strings(o)
		r.Shuffle(len(o), func(i, j int) { o[i], o[j] = o[j], o[i] })
		w.Order[g] = o
	}
}

// ShuffleOrders picks a fresh random lister order for every group.
func (w *World) ShuffleOrders() {
	for _, g := range w.Gorder {
		o := w.Order[g]
		w.Rng.Shuffle(len(o), func(i, j int) { o[i], o[j] = o[j], o[i] })
	}
}

// ---------------------------------------------------------------- reactor: journal + faults for node calls

func (w *World) nodeReactor(a core.Action) (bool, runtime.Object, error) {
	switch a.GetVerb() {
	case "get":
		name := a.(core.GetAction).GetName()
		fail := w.J.Hit("get", name)
		w.J.Add(Call{Op: "get", G: w.curGroup(), N: name, Ok: !fail})
		if fail {
			return true, nil, fmt.Errorf("injected: get node %s failed", name)
		}
		return false, nil, nil
	case "update":
		nd, ok := a.(core.UpdateAction).GetObject().(*v1.Node)
		if !ok {
			return false, nil, nil
		}
		w.J.MaybeCrash()
		fail := w.J.Hit("update", nd.Name)
		c := w.classifyUpdate(nd)
		// a write that loses a race: another writer changed the object (here: set the no-delete annotation) after the caller read
		// it, and the API server answers 409 Conflict to the caller's stale write
		conflict := !fail && w.J.HitOnce("conflict", nd.Name)
		c.Ok = !fail && !conflict
		w.J.Add(c)
		if fail {
			return true, nil, fmt.Errorf("injected: update node %s failed", nd.Name)
		}
		if conflict {
			w.updateNode(nd.Name, func(n *v1.Node) {
				if n.Annotations == nil {
					n.Annotations = map[string]string{}
				}
				n.Annotations[NoDeleteKey] = "set-by-another-writer"
			})
			return true, nil, apierrors.NewConflict(schema.GroupResource{Resource: "nodes"}, nd.Name, fmt.Errorf("the object has been modified"))
		}
		return false, nil, nil
	case "delete":
		w.J.MaybeCrash()
		name := a.(core.DeleteAction).GetName()
		fail := w.J.Hit("delete", name)
		w.J.Add(Call{Op: "delete", G: w.curGroup(), N: name, Ok: !fail})
		if fail {
			return true, nil, fmt.Errorf("injected: delete node %s failed", name)
		}
		return false, nil, nil
	}
	return false, nil, nil
}

func taintBag(ts []v1.Taint, skipKey string) string {
	var s []string
	for _, t := range ts {
		if t.Key == skipKey {
			continue
		}
		s = append(s, t.Key+"="+t.Value+":"+string(t.Effect))
	}
	sort.Strings(s)
	return strings.Join(s, ";")
}

func countKey(ts []v1.Taint, key string) (n int, first v1.Taint) {
	for _, t := range ts {
		if t.Key == key {
			if n == 0 {
				first = t
			}
			n++
		}
	}
	return
}

// sameResources compares two resource lists by value (quantities in arbitrary-precision form print as pointers)
func sameResources(a, b v1.ResourceList) bool {
	if len(a) != len(b) {
		return false
	}
	for k, qa := range a {
		qb, ok := b[k]
		if !ok || qa.Cmp(qb) != 0 {
			return false
		}
	}
	return true
}

// classifyUpdate compares the object sent in a PUT with the current API copy.
// S = "<kind>:<effect>", A = instant written into the taint value, B = 1 iff nothing else changed.
func (w *World) classifyUpdate(sent *v1.Node) Call {
	c := Call{Op: "update", G: w.curGroup(), N: sent.Name, S: "other:"}
	obj, err := w.K.Tracker().Get(nodeGVR, "", sent.Name)
	if err != nil {
		c.S = "other:no-current-object"
		return c
	}
	cur := obj.(*v1.Node)
	nb, _ := countKey(cur.Spec.Taints, TaintKey)
	na, ta := countKey(sent.Spec.Taints, TaintKey)
	clean := taintBag(cur.Spec.Taints, TaintKey) == taintBag(sent.Spec.Taints, TaintKey) &&
		fmt.Sprint(cur.Labels) == fmt.Sprint(sent.Labels) && fmt.Sprint(cur.Annotations) == fmt.Sprint(sent.Annotations) &&
		cur.Spec.Unschedulable == sent.Spec.Unschedulable && cur.Spec.ProviderID == sent.Spec.ProviderID &&
		sameResources(cur.Status.Allocatable, sent.Status.Allocatable) && sameResources(cur.Status.Capacity, sent.Status.Capacity) &&
		cur.CreationTimestamp.Equal(&sent.CreationTimestamp) && cur.Name == sent.Name
	switch {
	case na == nb+1:
		c.S = "taint:" + string(ta.Effect)
		if v, err := strconv.ParseInt(ta.Value, 10, 64); err == nil {
			c.A = w.TickOf(time.Unix(v, 0))
		} else {
			c.S = "taint-badvalue:" + string(ta.Effect)
		}
		if nb != 0 {
			clean = false
		}
	case na == nb-1:
		c.S = "untaint:"
		if na != 0 {
			c.S = "untaint-partial:"
		}
	case na == nb && na > 0:
		_, tb := countKey(cur.Spec.Taints, TaintKey)
		if tb != ta {
			c.S = "restamp:" + string(ta.Effect)
		}
	}
	c.B = b2i(clean)
	return c
}

// ---------------------------------------------------------------- environment actions on the concrete world

func (w *World) updateNode(id string, f func(*v1.Node)) bool {
	obj, err := w.K.Tracker().Get(nodeGVR, "", id)
	if err != nil {
		return false
	}
	n := obj.(*v1.Node).DeepCopy()
	f(n)
	return w.K.Tracker().Update(nodeGVR, n, "") == nil
}

// TickEnv advances virtual time by one tick by moving every stored instant one tick into the past.
func (w *World) TickEnv() {
	if RealTime {
		w.Now++
		next := w.T0.Add(time.Duration(w.Now) * Tick)
		if time.Now().After(next.Add(Tick / 8)) {
			w.Late = true
		}
		time.Sleep(time.Until(next))
		return
	}
	d := Tick
	shiftNode := func(n *v1.Node) {
		n.CreationTimestamp = metav1.NewTime(n.CreationTimestamp.Add(-d))
		for j := range n.Spec.Taints {
			if n.Spec.Taints[j].Key == TaintKey {
				if v, err := strconv.ParseInt(n.Spec.Taints[j].Value, 10, 64); err == nil && v > 1000000 && v < 90000000000 {
					n.Spec.Taints[j].Value = strconv.FormatInt(v-int64(d/time.Second), 10)
				}
			}
		}
	}
	for _, n := range w.listNodes() {
		if _, ok := w.groupOfNode(n); !ok {
			continue
		}
		shiftNode(n)
		_ = w.K.Tracker().Update(nodeGVR, n, "")
	}
	for _, lv := range w.LagView {
		for _, n := range lv {
			shiftNode(n)
		}
	}
	for _, a := range w.AWS.Asgs {
		for i := range a.Instances {
			a.Instances[i].Launch = a.Instances[i].Launch.Add(-d)
		}
	}
	w.C.VerifShiftClock(d)
	w.Now++
}

func (w *World) groupOfNode(n *v1.Node) (string, bool) {
	g := n.Labels[LabelKey]
	_, ok := w.Cfgs[g]
	return g, ok
}

func (w *World) Cordon(id string, v bool) bool {
	return w.updateNode(id, func(n *v1.Node) { n.Spec.Unschedulable = v })
}

func removeTaint(n *v1.Node, key string) {
	var out []v1.Taint
	for _, t := range n.Spec.Taints {
		if t.Key != key {
			out = append(out, t)
		}
	}
	n.Spec.Taints = out
}

// ExtTaint puts an escalator taint on the node from outside. kind: now | bad | future | zero | old
func (w *World) ExtTaint(id, kind string, at int) bool {
	return w.updateNode(id, func(n *v1.Node) {
		removeTaint(n, TaintKey)
		t := Taint{Has: true, Ok: true, At: at}
		switch kind {
		case "bad":
			t.Ok = false
		case "future":
			t.At = FarFuture
		case "zero":
			t.At = FarPast
		}
		// at the front, so that foreign taints after it move when it is removed
		eff := v1.TaintEffectNoSchedule
		if (len(id)+at)%2 == 0 {
			eff = v1.TaintEffectNoExecute
		}
		n.Spec.Taints = append([]v1.Taint{{Key: TaintKey, Value: w.taintValue(t, id), Effect: eff}}, n.Spec.Taints...)
	})
}

func (w *World) ExtUntaint(id string) bool {
	return w.updateNode(id, func(n *v1.Node) { removeTaint(n, TaintKey) })
}

func (w *World) ForceTaint(id string, v bool) bool {
	return w.updateNode(id, func(n *v1.Node) {
		removeTaint(n, ForceKey)
		if v {
			n.Spec.Taints = append(n.Spec.Taints, v1.Taint{Key: ForceKey, Value: "1", Effect: v1.TaintEffectNoSchedule})
		}
	})
}

func (w *World) Annotate(id, value string, present bool) bool {
	return w.updateNode(id, func(n *v1.Node) {
		if n.Annotations == nil {
			n.Annotations = map[string]string{}
		}
		if present {
			n.Annotations[NoDeleteKey] = value
		} else {
			delete(n.Annotations, NoDeleteKey)
		}
	})
}

func (w *World) NodeGone(id string) bool {
	return w.K.Tracker().Delete(nodeGVR, "", id) == nil
}

// CloudLaunch adds a new instance to the group's ASG if it is below its desired capacity.
func (w *World) CloudLaunch(g, id string) bool {
	a := w.AWS.Asgs[AsgName(g)]
	live := int64(0)
	if a != nil {
		for _, i := range a.Instances {
			if !i.Terminating {
				live++
			}
		}
	}
	if a == nil || live >= a.Desired {
		return false
	}
	for _, i := range a.Instances {
		if i.ID == id {
			return false
		}
	}
	a.Instances = append(a.Instances, SimInst{ID: id, Launch: time.Now()})
	return true
}

// Register creates the Node object of an instance.
func (w *World) Register(g, id string, o NodeObj) bool {
	if _, err := w.K.Tracker().Get(nodeGVR, "", id); err == nil {
		return false
	}
	o.Created = w.Now
	if err := w.K.Tracker().Add(w.MakeNode(g, id, o)); err != nil {
		return false
	}
	w.addDaemonPod(g, id)
	return true
}

// GoLive hands the scans over to the controller's own loop (RunForever): every scan begins with the provider refresh, at which
// point OnScanStart runs (it may change the world or the fault set) and the listers take a fresh snapshot.
func (w *World) GoLive() {
	w.Live = true
	w.AWS.OnDescribe = func() {
		w.ScanNo++
		w.liveNewScan = true
		if w.OnScanStart != nil {
			w.OnScanStart(w.ScanNo)
		}
	}
}

// InstanceGone: the cloud finally drops a terminating instance from the ASG's list.
func (w *World) InstanceGone(g, id string) bool {
	a := w.AWS.Asgs[AsgName(g)]
	if a == nil {
		return false
	}
	for i, inst := range a.Instances {
		if inst.ID == id && inst.Terminating {
			a.Instances = append(a.Instances[:i:i], a.Instances[i+1:]...)
			return true
		}
	}
	return false
}

// LoseInstance removes an instance from its ASG behind escalator's back (its Node object stays).
func (w *World) LoseInstance(g, id string) bool {
	a := w.AWS.Asgs[AsgName(g)]
	if a == nil {
		return false
	}
	for i, inst := range a.Instances {
		if inst.ID == id {
			a.Instances = append(a.Instances[:i:i], a.Instances[i+1:]...)
			return true
		}
	}
	return false
}

func (w *World) AsgEdit(g string, min, max int) bool {
	a := w.AWS.Asgs[AsgName(g)]
	if a == nil {
		return false
	}
	a.Min, a.Max = int64(min), int64(max)
	return true
}

func (w *World) AsgSetDesired(g string, d int) bool {
	a := w.AWS.Asgs[AsgName(g)]
	if a == nil {
		return false
	}
	a.Desired = int64(d)
	return true
}

func (w *World) PodArrive(g string, cpu, mem int) {
	_ = w.K.Tracker().Add(w.MakePod(g, Pod{Cpu: cpu, Mem: mem, Pending: true}, w.podSeq))
}

// PodReplace deletes one pod of group g and creates a different pod under the SAME namespace/name, counting for group g2 with
// other requests (a re-submitted job): nothing may remember the old pod by its name.
func (w *World) PodReplace(g, g2 string, cpu, mem int) bool {
	ps := w.groupPods(g, func(p *v1.Pod) bool { return true })
	if len(ps) == 0 {
		return false
	}
	old := ps[len(ps)/2]
	if w.K.Tracker().Delete(podGVR, NS, old.Name) != nil {
		return false
	}
	np := w.MakePod(g2, Pod{Cpu: cpu, Mem: mem, Pending: true}, cpu+mem)
	np.Name = old.Name
	return w.K.Tracker().Add(np) == nil
}

// groupPods returns the group's abstract pods matching the filter, by name order.
func (w *World) groupPods(g string, f func(*v1.Pod) bool) []*v1.Pod {
	var r []*v1.Pod
	for _, p := range w.listPods() {
		if p.Annotations["verif/group"] == g && f(p) {
			r = append(r, p)
		}
	}
	return r
}

// PodSchedule binds one pending, unassigned pod of g to node id (the pod starts running).
func (w *World) PodSchedule(g, id string) bool {
	ps := w.groupPods(g, func(p *v1.Pod) bool { return p.Spec.NodeName == "" })
	if len(ps) == 0 {
		return false
	}
	p := ps[0]
	c, _ := strconv.Atoi(p.Annotations["verif/cpu"])
	m, _ := strconv.Atoi(p.Annotations["verif/mem"])
	setPodStatus(p, Pod{Cpu: c, Mem: m, Node: id, Sched: true})
	return w.K.Tracker().Update(podGVR, p, NS) == nil
}

// PodFinish removes one pod of g assigned to node id ("" = an unassigned one).
func (w *World) PodFinish(g, id string) bool {
	ps := w.groupPods(g, func(p *v1.Pod) bool { return p.Spec.NodeName == id })
	if len(ps) == 0 {
		return false
	}
	return w.K.Tracker().Delete(podGVR, NS, ps[0].Name) == nil
}

// SetLag freezes the lister view of group g at the current API content (on = true) or resyncs it.
func (w *World) SetLag(g string, on bool) {
	if !on {
		delete(w.LagView, g)
		return
	}
	lv := map[string]*v1.Node{}
	for _, n := range w.listNodes() {
		if n.Labels[LabelKey] == g {
			lv[n.Name] = n
		}
	}
	w.LagView[g] = lv
}

var _ = context.TODO
