// Package world is the simulated environment the real escalator controller runs in, plus the
// projection between that concrete world and the abstract state of the TLA+ specification
// (DESIGN.md appendix A). Field names here are the field names used in the TLA+ records.
package world

import (
	"bytes"
	"encoding/json"
	"sort"
)

// NodeMap is a map of node objects that also accepts the JSON form TLC gives the empty function ("[]").
type NodeMap map[string]NodeObj

func (m *NodeMap) UnmarshalJSON(b []byte) error {
	if bytes.Equal(bytes.TrimSpace(b), []byte("[]")) || bytes.Equal(bytes.TrimSpace(b), []byte("null")) {
		*m = NodeMap{}
		return nil
	}
	var x map[string]NodeObj
	if err := json.Unmarshal(b, &x); err != nil {
		return err
	}
	*m = x
	return nil
}

// Never is the abstract instant "never happened" (far past). A zero Go time projects to it.
const Never = -100000

// FarFuture / FarPast clamp absurd instants so they stay inside TLC's 32-bit integers.
const (
	FarFuture = 1000000
	FarPast   = -1000000
)

type Taint struct {
	Has bool `json:"has"`
	Ok  bool `json:"ok"` // value parses as an integer
	At  int  `json:"at"` // instant (tick) encoded in the value; 0 when !Has or !Ok
}

type NodeObj struct {
	Created  int    `json:"created"`
	Cordoned bool   `json:"cordoned"`
	Force    bool   `json:"force"`
	Nodel    bool   `json:"nodel"`
	Taint    Taint  `json:"taint"`
	Pid      string `json:"pid"` // ok | empty | short
	Cpu      int    `json:"cpu"` // allocatable, in units
	Mem      int    `json:"mem"`
}

type Pod struct {
	Cpu     int    `json:"cpu"`
	Mem     int    `json:"mem"`
	Node    string `json:"node"`    // "" = not assigned
	Pending bool   `json:"pending"` // phase Pending (else Running)
	Sched   bool   `json:"sched"`   // PodScheduled condition true
}

type Cfg struct {
	Min    int    `json:"min"`
	Max    int    `json:"max"`
	Lower  int    `json:"lower"`
	Upper  int    `json:"upper"`
	Up     int    `json:"up"`
	Slow   int    `json:"slow"`
	Fast   int    `json:"fast"`
	Soft   int    `json:"soft"`
	Hard   int    `json:"hard"`
	Cool   int    `json:"cool"`
	MaxAge int    `json:"maxAge"` // 0 = disabled
	Dry    bool   `json:"dry"`
	Starve bool   `json:"starve"`
	Fleet  bool   `json:"fleet"`
	Auto   bool   `json:"auto"` // min_nodes = max_nodes = 0 in the options: discover from the cloud
	Effect string `json:"effect"`
}

type Asg struct {
	Min     int      `json:"min"`
	Max     int      `json:"max"`
	Desired int      `json:"desired"`
	Members []string `json:"members"` // sorted: every listed instance, whatever its lifecycle state
	// lifecycle: with Linger an instance terminated through the ASG stays listed (state Terminating) until the cloud drops it
	Terminating []string `json:"terminating"`
	Linger      bool     `json:"linger"`
}

type Ctl struct {
	LockAt    int      `json:"lockAt"`
	IsLocked  bool     `json:"isLocked"`
	Requested int      `json:"requested"`
	Delta     int      `json:"delta"`
	LastOut   int      `json:"lastOut"`
	CapCpu    int      `json:"capCpu"`
	CapMem    int      `json:"capMem"`
	Tracker   []string `json:"tracker"` // dry-mode taint tracker, in order
	MinEff    int      `json:"minEff"`  // Opts.MinNodes as currently held by the controller
	MaxEff    int      `json:"maxEff"`
}

type Group struct {
	Cfg      Cfg                `json:"cfg"`
	Order    []string           `json:"order"` // order in which the node lister returns this group's nodes
	Lag      bool               `json:"lag"`   // view differs from api
	Api      NodeMap            `json:"api"`
	View     NodeMap            `json:"view"`
	Pods     []Pod              `json:"pods"`
	Asg      Asg                `json:"asg"`
	Pc       Asg                `json:"pc"`
	Ctl      Ctl                `json:"ctl"`
	Accepted int                `json:"accepted"` // ghost: instant of the last cloud-accepted scale-up in this controller lifetime
	Tries    int                `json:"tries"`    // provider's consecutive failed-fleet-cleanup counter
	SeenCpu  int                `json:"seenCpu"`  // ghost: size of the first listed node at the last scan of this controller lifetime that listed nodes (0 = none)
	SeenMem  int                `json:"seenMem"`
}

type State struct {
	Now    int              `json:"now"`
	DryAll bool             `json:"dryAll"`
	Alive  bool             `json:"alive"`
	Gorder []string         `json:"gorder"`
	Groups map[string]Group `json:"groups"`
}

// Call is one observed API call, in a uniform shape so that TLC can read every field of every call.
type Call struct {
	Op string `json:"op"`
	G  string `json:"g"`
	N  string `json:"n"`
	Ok bool   `json:"ok"`
	A  int    `json:"a"`
	B  int    `json:"b"`
	S  string `json:"s"`
	R  [][]int `json:"r"` // attach / terminate_instances: the instance numbers as maximal consecutive runs [lo, hi]
	T  int     `json:"-"` // virtual tick at which the call completed (time can pass inside a scan: slow cloud calls)
}

// Fault names one failing operation: (op, target).
type Fault struct {
	Op string `json:"op"`
	T  string `json:"t"`
}

// Line is one trace line.
type Line struct {
	Ev      string              `json:"ev"`
	ID      int                 `json:"id"`
	Src     string              `json:"src"` // which driver / case produced it
	Faults  []Fault             `json:"faults"`
	Pre     *State              `json:"pre,omitempty"`
	Calls   []Call              `json:"calls"`
	Lookups map[string][]string `json:"lookups,omitempty"` // per group: sorted node ids looked up in the cloud (describe_instance)
	Ret     string              `json:"ret"`               // nil | error | notingroup
	Panic   bool                `json:"panic"`
	Hang    bool                `json:"hang"`
	Exit    bool                `json:"exit"`
	Crash   bool                `json:"crash"` // the process was killed at an injected crash point
	PanicMsg string             `json:"panicMsg,omitempty"`
	Post    *State              `json:"post,omitempty"`
	Gauges  map[string]Gauges   `json:"gauges,omitempty"`
	MemShift int                `json:"memShift"` // the memory unit is 1 MiB << MemShift (0, or 20 in `drive -huge`)
	Twin    *TwinObs            `json:"twin,omitempty"`
}

// Gauges are metric read-backs after a scan (per group), in units.
type Gauges struct {
	Set     bool `json:"set"`
	CpuReq  int  `json:"cpuReq"`
	MemReq  int  `json:"memReq"`
	CpuCap  int  `json:"cpuCap"`
	MemCap  int  `json:"memCap"`
	Delta   int  `json:"delta"`
	Exact   bool `json:"exact"` // every value was an exact multiple of the unit
	// node / pod counts as exported after listing (-1 = not set in this scan)
	NAll    int  `json:"nAll"`
	NCord   int  `json:"nCord"`
	NUnt    int  `json:"nUnt"`
	NTaint  int  `json:"nTaint"`
	NForce  int  `json:"nForce"`
	NPods   int  `json:"nPods"`
	PctSet  bool `json:"pctSet"`
	CpuPct  int  `json:"cpuPct"` // milli-percent
	MemPct  int  `json:"memPct"`
}

// TwinObs is the observation of the same scan on a cloned world with a fresh controller (C02 release).
type TwinObs struct {
	Writes map[string]int `json:"writes"` // per group: number of mutating calls the twin made
	// the same scan on a clone in which no node carries the no-delete annotation (C10): instances it terminated, per group
	NoAnnotTerminated map[string][]string `json:"noAnnotTerminated"`
	// and on an exact clone (annotations kept): what differs between the two clones is due to the annotation alone
	CloneTerminated map[string][]string `json:"cloneTerminated"`
}

func SortedKeys[V any](m map[string]V) []string {
	ks := make([]string, 0, len(m))
	for k := range m {
		ks = append(ks, k)
	}
	sort.Strings(ks)
	return ks
}

func (s *State) Clone() *State {
	c := *s
	c.Gorder = append([]string(nil), s.Gorder...)
	c.Groups = map[string]Group{}
	for k, g := range s.Groups {
		c.Groups[k] = g.Clone()
	}
	return &c
}

func cloneNodes(m NodeMap) NodeMap {
	if m == nil {
		return nil
	}
	r := make(NodeMap, len(m))
	for k, v := range m {
		r[k] = v
	}
	return r
}

func (g Group) Clone() Group {
	c := g
	c.Order = append([]string{}, g.Order...)
	c.Api = cloneNodes(g.Api)
	c.View = cloneNodes(g.View)
	c.Pods = append([]Pod{}, g.Pods...)
	c.Asg.Members = append([]string{}, g.Asg.Members...)
	c.Pc.Members = append([]string{}, g.Pc.Members...)
	c.Asg.Terminating = append([]string{}, g.Asg.Terminating...)
	c.Pc.Terminating = append([]string{}, g.Pc.Terminating...)
	c.Ctl.Tracker = append([]string{}, g.Ctl.Tracker...)
	return c
}

// ViewOf returns the lister view of the group.
func (g Group) ViewOf() NodeMap {
	if g.Lag {
		return g.View
	}
	return g.Api
}
