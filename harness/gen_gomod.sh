#!/bin/sh
# Regenerates go.mod / go.sum of the harness from /repo's own module files (no network needed).
set -e
cd "$(dirname "$0")"
REPO=${VERIF_REPO:-/repo}
{
  echo "module verif/harness"
  echo
  sed -n '/^go /p' $REPO/go.mod
  echo
  echo "require github.com/atlassian/escalator v0.0.0"
  # repo's requirements (direct and indirect) become ours
  awk '/^require \(/{f=1;print;next} f&&/^\)/{f=0;print;next} f{print}' $REPO/go.mod
  echo
  echo "replace github.com/atlassian/escalator => $REPO"
} > go.mod
cp $REPO/go.sum go.sum
