----------------------------- MODULE Attribution ----------------------------
(***************************************************************************)
(* C14: which pods and nodes count toward a node group, as documented      *)
(* (docs/pod-node-selectors.md, properties.jsonl), over a small-scope      *)
(* universe of pod shapes.  The group's label is key "key" = "value";      *)
(* "other" is any other key / value.                                       *)
(***************************************************************************)
EXTENDS Integers, Sequences, FiniteSets

IsDaemonSet(p) == p.owner \in {"DaemonSet", "both"}
IsStatic(p) == p.static = "file"
SelectsGroup(p) == p.sel \in {"match", "match+other"}
HasSelector(p) == p.sel # "none"
ExprMatches(e) == e.k = "key" /\ e.op = "In" /\ \E i \in 1..Len(e.vals) : e.vals[i] = "value"
AffinityMatches(p) == p.aff = "terms" /\ \E t \in 1..Len(p.terms) : \E x \in 1..Len(p.terms[t]) : ExprMatches(p.terms[t][x])

\* a pod counts toward the group iff it is not DaemonSet-owned and selects it by nodeSelector or by a required In expression
InGroup(p) == ~IsDaemonSet(p) /\ (SelectsGroup(p) \/ AffinityMatches(p))

\* the group named default: neither DaemonSet-owned nor static, no nodeSelector, no affinity rules
NoAffinityRules(p) == p.aff \in {"nil", "empty"} /\ p.podaff = "none"
InDefault(p) == ~IsDaemonSet(p) /\ ~IsStatic(p) /\ ~HasSelector(p) /\ NoAffinityRules(p)
\* shapes the statement does not decide for the default group: an affinity object that is present but carries no rule
DefaultUndecided(p) == p.aff \in {"na-noreq", "na-noterms"} /\ p.podaff = "none"

NodeInGroup(n) == n.key = "value"

\* ---- the universe
Ops(tier) == IF tier = "quick" THEN {"In", "NotIn", "Exists"} ELSE {"In", "NotIn", "Exists", "DoesNotExist", "Gt"}
ValSeqs(tier) == IF tier = "quick" THEN {<<"value">>, <<"other">>, <<"other", "value">>} ELSE {<<>>, <<"value">>, <<"other">>, <<"other", "value">>, <<"value", "other">>}
Exprs(tier) == {[k |-> k, op |-> o, vals |-> v] : k \in {"key", "other"}, o \in Ops(tier), v \in ValSeqs(tier)}
TermSets(tier) == LET E == Exprs(tier) IN
  {<<<<e>>>> : e \in E} \cup {<<<<a, b>>>> : a \in E, b \in E} \cup {<<<<a>>, <<b>>>> : a \in E, b \in E}
Sels == {"none", "otherkey", "othervalue", "match", "match+other"}
Owners(tier) == IF tier = "quick" THEN {"none", "DaemonSet"} ELSE {"none", "ReplicaSet", "DaemonSet", "both"}
Statics(tier) == IF tier = "quick" THEN {"absent", "file"} ELSE {"absent", "file", "other"}
PodAffs(tier) == IF tier = "quick" THEN {"none", "anti"} ELSE {"none", "affinity", "anti"}
Pod(s, a, t, pa, o, st) == [kind |-> "pod", sel |-> s, aff |-> a, terms |-> t, podaff |-> pa, owner |-> o, static |-> st]
PodUniverse(tier) ==
  {Pod(s, a, <<>>, pa, o, st) : s \in Sels, a \in {"nil", "empty", "na-noreq", "na-noterms"}, pa \in PodAffs(tier), o \in Owners(tier), st \in Statics(tier)}
  \cup {Pod(s, "terms", t, pa, o, st) : s \in (IF tier = "quick" THEN {"none", "othervalue", "match"} ELSE Sels), t \in TermSets(tier), pa \in PodAffs(tier), o \in Owners(tier), st \in Statics(tier)}
NodeUniverse == {[kind |-> "node", key |-> k, other |-> o, nolabels |-> nl] : k \in {"absent", "value", "other"}, o \in {"absent", "value", "other"}, nl \in {FALSE}}
                \cup {[kind |-> "node", key |-> "absent", other |-> "absent", nolabels |-> TRUE]}
=============================================================================
