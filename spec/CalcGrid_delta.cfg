CONSTANTS
  Tier = "quick"
  Family = "delta"
  Seed = 1
INIT Init
NEXT Next
INVARIANTS GridOK Emit
CHECK_DEADLOCK FALSE
