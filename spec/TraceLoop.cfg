CONSTANTS
  TraceFile = "trace.ndjson"
  MaxScan = 4
INIT Init
NEXT Next
POSTCONDITION Done
CHECK_DEADLOCK FALSE
