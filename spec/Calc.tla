-------------------------------- MODULE Calc --------------------------------
(***************************************************************************)
(* Exact-integer transcription of escalator's resource arithmetic          *)
(* (pkg/k8s/scheduler/types.go, pkg/k8s/util.go, pkg/controller/util.go):  *)
(* per-pod request, totals over bags, utilisation as an exact rational,    *)
(* nodes needed for a threshold.  No floats: comparisons are done by       *)
(* cross-multiplication.  -1 stands for "no request given".                *)
(***************************************************************************)
EXTENDS Integers, Sequences, FiniteSets

Max2c(a, b) == IF a > b THEN a ELSE b
CeilDivC(a, b) == -((-a) \div b)
V(x) == IF x < 0 THEN 0 ELSE x          \* a missing request counts as zero

SumS(s, f(_)) == LET S[i \in 0..Len(s)] == IF i = 0 THEN 0 ELSE f(s[i]) + S[i - 1] IN S[Len(s)]
MaxS(s, f(_)) == LET S[i \in 0..Len(s)] == IF i = 0 THEN 0 ELSE Max2c(f(s[i]), S[i - 1]) IN S[Len(s)]

\* pod: [cs |-> Seq(<<cpu, mem>>), is |-> Seq(<<cpu, mem>>), oh |-> <<cpu, mem>>]   (oh = <<-1, -1>>: no overhead)
PodCpu(p) == Max2c(SumS(p.cs, LAMBDA c : V(c[1])), MaxS(p.is, LAMBDA c : V(c[1]))) + V(p.oh[1])
PodMem(p) == Max2c(SumS(p.cs, LAMBDA c : V(c[2])), MaxS(p.is, LAMBDA c : V(c[2]))) + V(p.oh[2])
TotalCpu(pods) == SumS(pods, PodCpu)
TotalMem(pods) == SumS(pods, PodMem)

\* nodes: Seq(<<cpu, mem>>) of the untainted, uncordoned nodes
CapCpuN(nodes) == SumS(nodes, LAMBDA n : V(n[1]))
CapMemN(nodes) == SumS(nodes, LAMBDA n : V(n[2]))

\* observed percentage p (in milli-percent) is within one milli-percent of 100 req / cap
Near(p, req, cap) == LET d == p * cap - 100000 * req IN d <= cap /\ -d <= cap

\* least m >= 0 with 100 req <= T m K for both resources (nodes of size (Kc, Km))
NeedBoth(rc, rm, Kc, Km, T) == Max2c(CeilDivC(100 * rc, T * Kc), CeilDivC(100 * rm, T * Km))
Exceeds(rc, rm, cc, cm, T) == 100 * rc > T * cc \/ 100 * rm > T * cm
AtMost(rc, rm, cc, cm, T) == 100 * rc <= T * cc /\ 100 * rm <= T * cm
=============================================================================
