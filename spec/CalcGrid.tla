------------------------------ MODULE CalcGrid ------------------------------
(* Enumerates the input grids of the arithmetic families (C05 scale-up size, C13 request / capacity / utilisation) as cases *)
(* for the real functions, and checks on the way that the code's formulas, taken in exact arithmetic, meet the statement.   *)
EXTENDS Calc, Json, TLC, TLCExt, Randomization

CONSTANTS Tier, Family, Seed    \* Family: "delta" | "pods" | "nodes"

VARIABLE case

Nat0(S) == {x \in S : x >= 0}
Around(x) == Nat0({x - 1, x, x + 1})

Ns == IF Tier = "quick" THEN {0, 1, 2, 3, 5, 8, 13, 20} ELSE {0, 1, 2, 3, 4, 5, 6, 8, 10, 13, 16, 20}
Ks == IF Tier = "quick" THEN {<<4, 16>>, <<10, 10>>, <<64, 4>>} ELSE {<<4, 16>>, <<10, 10>>, <<64, 4>>, <<1, 1>>, <<7, 3>>, <<40, 160>>}
Ts == IF Tier = "quick" THEN {30, 70, 100, 120} ELSE {1, 30, 45, 70, 77, 100, 120}
Reqs(n, k, t) == LET cap == IF n = 0 THEN k ELSE n * k IN
                 {0} \cup Around((t * cap) \div 100) \cup Around(((t + 1) * cap) \div 100) \cup {cap, 2 * cap, 6 * cap}
                 \cup (IF Tier = "quick" THEN {} ELSE {(j * cap) \div 4 : j \in 1..10} \cup Around((t * cap * 3) \div 100))
MemReqs(n, k, t) == LET cap == IF n = 0 THEN k ELSE n * k IN {0, (t * cap) \div 100, ((t * cap) \div 100) + 1, 3 * cap}

DeltaGrid == UNION {UNION {UNION {{[kind |-> "delta", n |-> n, kc |-> K[1], km |-> K[2], t |-> t, rc |-> rc, rm |-> rm, cached |-> ch]
                                     : rc \in Reqs(n, K[1], t), rm \in MemReqs(n, K[2], t), ch \in (IF n = 0 THEN BOOLEAN ELSE {TRUE})}
                                   : t \in Ts} : K \in Ks} : n \in Ns}

\* the code's formula in exact arithmetic: n + ceil(n (u - T) / T) with u = 100 req / (n K)  equals the least sufficient node count
DeltaOK(c) ==
  IF c.n > 0 /\ Exceeds(c.rc, c.rm, c.n * c.kc, c.n * c.km, c.t)
    THEN LET fc == CeilDivC(c.n * (100 * c.rc - c.t * c.n * c.kc), c.t * c.n * c.kc)
             fm == CeilDivC(c.n * (100 * c.rm - c.t * c.n * c.km), c.t * c.n * c.km)
         IN c.n + Max2c(fc, fm) = NeedBoth(c.rc, c.rm, c.kc, c.km, c.t)
    ELSE TRUE

\* ---- pod shapes (cpu in millicores, memory in bytes; -1 = no request)
CVals == {<<-1, -1>>, <<100, 1048576>>, <<250, -1>>, <<2000, 268435456>>, <<-1, 1500000>>}
IVals == {<<500, 1024>>, <<3000, 134217728>>, <<-1, 300000000>>}
OVals == {<<-1, -1>>, <<100, 1048576>>}
Seqs012(S) == {<<>>} \cup {<<a>> : a \in S} \cup (S \X S)
PodShapes == {[cs |-> c, is |-> i, oh |-> o] : c \in Seqs012(CVals), i \in Seqs012(IVals), o \in OVals}
           \cup {[cs |-> <<a, b, d>>, is |-> <<>>, oh |-> <<-1, -1>>] : a \in {<<100, 1048576>>}, b \in CVals, d \in CVals}
RECURSIVE SetToSeqC(_)
SetToSeqC(S) == IF S = {} THEN <<>> ELSE LET x == CHOOSE x \in S : TRUE IN <<x>> \o SetToSeqC(S \ {x})
\* single pods exhaustively, and bags of about three pods drawn by TLC's seeded sampler (the harness lists each in several orders)
PodsGrid == {[kind |-> "pods", pods |-> <<p>>] : p \in PodShapes}
            \cup {[kind |-> "pods", pods |-> SetToSeqC(S)] : S \in {T \in RandomSetOfSubsets(IF Tier = "quick" THEN 600 ELSE 2500, 2, PodShapes) : Cardinality(T) \in 2..3}}

\* ---- node allocatables
NVals == {<<-1, -1>>, <<0, 0>>, <<1000, 536870912>>, <<4000, 400000000>>, <<500, 134217728>>, <<64000, 1024>>}
NodesGrid == {[kind |-> "nodes", nodes |-> l] : l \in Seqs012(NVals) \cup (IF Tier = "quick" THEN {} ELSE NVals \X NVals \X NVals)}

Grid == IF Family = "delta" THEN DeltaGrid ELSE IF Family = "pods" THEN PodsGrid ELSE NodesGrid

GridOK == case.kind # "delta" \/ DeltaOK(case)
Emit == PrintT(ToJson([kind |-> "CASE", case |-> case]))

Init == case \in Grid
Next == UNCHANGED case
=============================================================================
