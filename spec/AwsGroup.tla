------------------------------ MODULE AwsGroup ------------------------------
(* Small-step specification of the fleet path of NodeGroup.IncreaseSize; the big-step summaries and the property predicates  *)
(* are in AwsCore.tla.                                                                                                      *)
EXTENDS AwsCore, Json, TLCExt

-----------------------------------------------------------------------------
(* Small-step specification of the fleet path: every failure point is a choice TLC explores *)

CONSTANTS FleetSizes, Tries0Set
VARIABLES phase, c, calls, remaining, batch, ret, exit, tries, plan, orphans

avars == <<phase, c, calls, remaining, batch, ret, exit, tries, plan, orphans>>

Plan0 == [failDescribe |-> FALSE, failCreate |-> FALSE, noCapacity |-> FALSE, failSet |-> FALSE, failAttach |-> 0, failTerm |-> {}]

\* never: not every instance reports "running" before the deadline; ready: how many of them do (the first `ready` ids)
Case(d, t0, never, rk) == [min |-> 0, max |-> 5000, desired |-> 3, d |-> d, fleet |-> TRUE, lifecycle |-> "", types |-> 0, subnets |-> 1, tagging |-> FALSE,
                        never |-> never, ready |-> rk, tries0 |-> t0, lo |-> 0]

AInit == /\ \E d \in FleetSizes, t0 \in Tries0Set, nv \in BOOLEAN :
              \E rk \in (IF nv THEN {0, 1, d - 1} \cap 0..(d - 1) ELSE {d}) : c = Case(d, t0, nv, rk)
         /\ phase = "start" /\ calls = <<>> /\ remaining = <<>> /\ batch = <<>> /\ ret = "none" /\ exit = FALSE /\ tries = c.tries0 /\ plan = Plan0 /\ orphans = <<>>

Describe == /\ phase = "start"
            /\ \/ /\ calls' = <<AC("describe_asgs", TRUE, 0, 0, <<>>)>> /\ phase' = "described" /\ UNCHANGED <<ret, plan>>
               \/ /\ calls' = <<AC("describe_asgs", FALSE, 0, 0, <<>>)>> /\ phase' = "done" /\ ret' = "error" /\ plan' = [plan EXCEPT !.failDescribe = TRUE]
            /\ UNCHANGED <<c, remaining, batch, exit, tries, orphans>>

Create == /\ phase = "described"
          /\ \/ /\ calls' = calls \o <<FleetCall(c), AC("fleet_ids", TRUE, 0, c.d - 1, <<>>)>>
                /\ remaining' = <<<<0, c.d - 1>>>> /\ phase' = "waiting" /\ UNCHANGED <<ret, plan>>
             \/ /\ calls' = Append(calls, [FleetCall(c) EXCEPT !.ok = FALSE]) /\ phase' = "done" /\ ret' = "error"
                /\ plan' = [plan EXCEPT !.failCreate = TRUE] /\ UNCHANGED remaining
          /\ UNCHANGED <<c, batch, exit, tries, orphans>>

\* all instances running at the first poll, or the deadline passes first (with none, some or all but one of them running):
\* whatever was created and is not attached is an orphan
Wait == /\ phase = "waiting"
        /\ \/ /\ ~c.never /\ calls' = Append(calls, AC("status", TRUE, c.d, 1, <<>>)) /\ phase' = "attaching" /\ UNCHANGED orphans
           \/ /\ c.never /\ orphans' = remaining /\ phase' = "terminating" /\ UNCHANGED calls
        /\ UNCHANGED <<c, remaining, batch, ret, exit, tries, plan>>

NAttached == Len(OpCalls(calls, "attach"))
Attach == /\ phase = "attaching" /\ remaining # <<>>
          /\ LET n == Min2(AttachLimit, RunsLen(remaining))
                 b == TakeRuns(remaining, n)
                 rest == DropRuns(remaining, n)
             IN \/ /\ calls' = Append(calls, AC("attach", TRUE, Lo(b), Hi(b), b)) /\ remaining' = rest
                   /\ IF rest = <<>> THEN phase' = "done" /\ ret' = "nil" /\ tries' = 0 ELSE UNCHANGED <<phase, ret, tries>>
                   /\ UNCHANGED <<orphans, plan>>
                \/ /\ calls' = Append(calls, AC("attach", FALSE, Lo(b), Hi(b), b))
                   /\ orphans' = rest \o b /\ phase' = "terminating" /\ remaining' = rest
                   /\ plan' = [plan EXCEPT !.failAttach = NAttached + 1] /\ UNCHANGED <<ret, tries>>
          /\ UNCHANGED <<c, batch, exit>>

NTerm == Len(OpCalls(calls, "terminate_instances"))
Terminate == /\ phase = "terminating"
             /\ IF orphans = <<>>
                  THEN /\ tries' = tries + 1 /\ exit' = (tries + 1 >= MaxTries) /\ ret' = "error" /\ phase' = "done"
                       /\ UNCHANGED <<calls, orphans, plan>>
                  ELSE LET b == TakeRuns(orphans, TerminateLimit) IN
                       /\ orphans' = DropRuns(orphans, TerminateLimit)
                       /\ \/ calls' = Append(calls, AC("terminate_instances", TRUE, Lo(b), Hi(b), b)) /\ UNCHANGED plan
                          \/ /\ calls' = Append(calls, AC("terminate_instances", FALSE, Lo(b), Hi(b), b))
                             /\ plan' = [plan EXCEPT !.failTerm = @ \cup {NTerm + 1}]
                       /\ UNCHANGED <<tries, exit, ret, phase>>
             /\ UNCHANGED <<c, remaining, batch>>

ANext == Describe \/ Create \/ Wait \/ Attach \/ Terminate
ASpec == AInit /\ [][ANext]_avars

RetOf == IF ret = "none" THEN "error" ELSE ret
\* invariants of terminal states
ADone == phase = "done"
InvC17 == ADone => C17bad(c, calls, RetOf, c.desired + RunsLen(CatRuns(SelectSeq(OpCalls(calls, "attach"), LAMBDA x : x.ok)))) = {}
InvC18 == ADone => C18bad(c, calls, RetOf) = {}
\* refinement: the small-step terminal history is the big-step summary for the fault plan that happened
InvRefines == ADone => LET r == IncResult(c, plan) IN r.calls = calls /\ r.ret = RetOf /\ r.exit = exit /\ r.tries = tries
InvExit == exit => tries >= MaxTries

\* every terminal behaviour (size x fault plan) becomes one case for the real provider
SetToSeq0(S) == LET RECURSIVE F(_) F(T) == IF T = {} THEN <<>> ELSE LET x == CHOOSE x \in T : \A y \in T : x <= y IN <<x>> \o F(T \ {x}) IN F(S)
EmitDone == ADone => PrintT(ToJson([kind |-> "CASE", case |->
   [kind |-> "inc", min |-> c.min, max |-> c.max, desired |-> c.desired, nmemb |-> c.desired, d |-> c.d, fleet |-> TRUE, lifecycle |-> c.lifecycle,
    types |-> c.types, subnets |-> c.subnets, tagging |-> c.tagging, never |-> c.never, readyK |-> c.ready, prefail |-> c.tries0, preInc |-> 0,
    failDescribe |-> plan.failDescribe, failCreate |-> plan.failCreate, noCapacity |-> plan.noCapacity, failSet |-> FALSE,
    failAttach |-> plan.failAttach, failTerm |-> SetToSeq0(plan.failTerm), failNodes |-> <<>>, list |-> <<>>]]))
=============================================================================
