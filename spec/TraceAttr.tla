------------------------------ MODULE TraceAttr -----------------------------
(* Validates the verdicts of the real pod / node filters and filtered listers (harness `attrib`) against Attribution.tla. *)
EXTENDS Attribution, Json, TLC
CONSTANTS TraceFile
Trace == ndJsonDeserialize(TraceFile)
VARIABLE l

CheckLine(i) ==
  LET o == Trace[i]
      c == o.case
      viol == IF c.kind = "pod"
                THEN (IF o.groupFn # InGroup(c) THEN {IF InGroup(c) THEN "group-pod-not-counted" ELSE "foreign-pod-counted"} ELSE {})
                     \cup (IF o.groupLs # o.groupFn THEN {"group-lister-differs-from-filter"} ELSE {})
                     \cup (IF ~DefaultUndecided(c) /\ o.defaultFn # InDefault(c) THEN {IF InDefault(c) THEN "default-pod-not-counted" ELSE "non-default-pod-counted-in-default"} ELSE {})
                     \cup (IF o.defaultLs # o.defaultFn THEN {"default-lister-differs-from-filter"} ELSE {})
                ELSE (IF o.nodeFn # NodeInGroup(c) THEN {IF NodeInGroup(c) THEN "group-node-not-counted" ELSE "foreign-node-counted"} ELSE {})
                     \cup (IF o.nodeLs # o.nodeFn \/ o.nodeDefLs # o.nodeFn THEN {"node-lister-differs-from-filter"} ELSE {})
      facts == IF c.kind = "pod"
                 THEN (IF InGroup(c) THEN {"C14:in-group"} ELSE {"C14:not-in-group"})
                      \cup (IF InGroup(c) /\ ~SelectsGroup(c) THEN {"C14:in-group-by-affinity"} ELSE {})
                      \cup (IF InDefault(c) THEN {"C14:in-default"} ELSE {})
                      \cup (IF DefaultUndecided(c) THEN {"C14:default-undecided"} ELSE {})
                      \cup (IF IsDaemonSet(c) THEN {"C14:daemonset"} ELSE {})
                      \cup (IF c.aff = "terms" /\ Len(c.terms) > 1 THEN {"C14:two-terms"} ELSE {})
                      \cup (IF c.aff = "terms" /\ Len(c.terms[1]) > 1 THEN {"C14:two-expressions"} ELSE {})
                 ELSE {"C14:node"}
  IN /\ IF viol = {} THEN TRUE ELSE PrintT(ToJson([kind |-> "VIOLATIONS", line |-> i, src |-> o.src, id |-> i, v |-> {<<"C14", x, "", "">> : x \in viol}]))
     /\ PrintT(ToJson([kind |-> "LINE", line |-> i, branches |-> [k \in {"case"} |-> c.kind], facts |-> facts]))

Init == l = 1
Next == l <= Len(Trace) /\ CheckLine(l) /\ l' = l + 1
Done == PrintT(ToJson([kind |-> "DONE", lines |-> Len(Trace), reached |-> TLCGet("stats").diameter - 1]))
=============================================================================
