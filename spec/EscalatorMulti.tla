--------------------------- MODULE EscalatorMulti ---------------------------
(***************************************************************************)
(* The model with SEVERAL node groups (the per-group variables of          *)
(* Escalator.tla indexed by group), scanned in configuration order by      *)
(* EscalatorCore!RunOnce.  Serves C12 (isolation, later groups still       *)
(* processed after a non-fatal failure, the group named default) and the   *)
(* second clause of C11 (dry mode on one group changes nothing elsewhere). *)
(***************************************************************************)
EXTENDS EscalatorCore, Props, Json, TLCExt

CONSTANTS
  Gs,           \* sequence of group names, in configuration order
  NodeIdsOf,    \* [group -> set of potential nodes]
  CfgOf,        \* [group -> cfg]
  DryAll,
  AsgMax0, AsgMinOf, AsgMaxOf,   \* cloud bounds: per-group minimum and maximum (AsgMax0: bound used by environment actions)
  KC, KM, MaxPend,
  EnvOn, FaultOps, MaxFaults,
  InitNodes,    \* nodes present initially, per group
  PropIds, EmitRate

GSet == {Gs[i] : i \in 1..Len(Gs)}
AllNodes == UNION {NodeIdsOf[g] : g \in GSet}

VARIABLES now, api, run, pend, asg, pc, ctl, accepted, alive
vars == <<now, api, run, pend, asg, pc, ctl, accepted, alive>>

NoTaint == [has |-> FALSE, ok |-> FALSE, at |-> 0]
FreshNode(t) == [created |-> t, cordoned |-> FALSE, force |-> FALSE, nodel |-> FALSE, taint |-> NoTaint, pid |-> "ok", cpu |-> KC, mem |-> KM]

PodsSeq(g) ==
  LET runSeq(n) == [i \in 1..run[n] |-> [cpu |-> 1, mem |-> 1, node |-> n, pending |-> FALSE, sched |-> TRUE]]
      RECURSIVE Cat(_)
      Cat(S) == IF S = {} THEN <<>> ELSE LET x == CHOOSE x \in S : TRUE IN runSeq(x) \o Cat(S \ {x})
  IN Cat({n \in NodeIdsOf[g] : run[n] > 0}) \o [i \in 1..pend[g] |-> [cpu |-> 1, mem |-> 1, node |-> "", pending |-> TRUE, sched |-> FALSE]]

GroupRec(g) == [cfg |-> CfgOf[g], order |-> SetToSortedSeq(DOMAIN api[g]), lag |-> FALSE, api |-> api[g], view |-> api[g], pods |-> PodsSeq(g),
                asg |-> asg[g], pc |-> pc[g], ctl |-> ctl[g], accepted |-> accepted[g], tries |-> 0, seenCpu |-> ctl[g].capCpu, seenMem |-> ctl[g].capMem]
World == [now |-> now, dryAll |-> DryAll, alive |-> alive, gorder |-> Gs, groups |-> [g \in GSet |-> GroupRec(g)]]

Ctl0(g) == [lockAt |-> Never, isLocked |-> FALSE, requested |-> 0, delta |-> 0, lastOut |-> Never, capCpu |-> 0, capMem |-> 0, tracker |-> <<>>,
            minEff |-> CfgOf[g].min, maxEff |-> CfgOf[g].max]

Init ==
  LET first(g) == CHOOSE S \in SUBSET NodeIdsOf[g] : Cardinality(S) = InitNodes IN
  /\ now = 0
  /\ api = [g \in GSet |-> [n \in first(g) |-> FreshNode(0)]]
  /\ run = [n \in AllNodes |-> 0]
  /\ pend = [g \in GSet |-> 0]
  /\ asg = [g \in GSet |-> [min |-> AsgMinOf[g], max |-> AsgMaxOf[g], desired |-> InitNodes, members |-> first(g), terminating |-> {}, linger |-> FALSE]]
  /\ pc = asg
  /\ ctl = [g \in GSet |-> Ctl0(g)]
  /\ accepted = [g \in GSet |-> Never]
  /\ alive = TRUE

On(a) == a \in EnvOn
Tick == On("Tick") /\ now' = now + 1 /\ UNCHANGED <<api, run, pend, asg, pc, ctl, accepted, alive>>
PodArrive == On("PodArrive") /\ \E g \in GSet : pend[g] < MaxPend /\ pend' = [pend EXCEPT ![g] = @ + 1] /\ UNCHANGED <<now, api, run, asg, pc, ctl, accepted, alive>>
Schedulable(g, n) == n \in DOMAIN api[g] /\ ~api[g][n].cordoned /\ ~api[g][n].force /\ ~api[g][n].taint.has /\ run[n] < Min2(KC, KM)
PodSchedule == On("PodSchedule") /\ \E g \in GSet : pend[g] > 0 /\ \E n \in NodeIdsOf[g] : Schedulable(g, n)
                 /\ run' = [run EXCEPT ![n] = @ + 1] /\ pend' = [pend EXCEPT ![g] = @ - 1]
                 /\ UNCHANGED <<now, api, asg, pc, ctl, accepted, alive>>
PodFinish == /\ On("PodFinish")
             /\ \/ \E n \in AllNodes : run[n] > 0 /\ run' = [run EXCEPT ![n] = @ - 1] /\ UNCHANGED pend
                \/ \E g \in GSet : pend[g] > 0 /\ pend' = [pend EXCEPT ![g] = @ - 1] /\ UNCHANGED run
             /\ UNCHANGED <<now, api, asg, pc, ctl, accepted, alive>>
EnvNode(name, P(_), f(_)) == On(name) /\ \E g \in GSet : \E n \in DOMAIN api[g] : P(api[g][n]) /\ api' = [api EXCEPT ![g][n] = f(@)]
                               /\ UNCHANGED <<now, run, pend, asg, pc, ctl, accepted, alive>>
Cordon   == EnvNode("Cordon", LAMBDA o : ~o.cordoned, LAMBDA o : [o EXCEPT !.cordoned = TRUE])
ExtForce == EnvNode("ExtForce", LAMBDA o : ~o.force, LAMBDA o : [o EXCEPT !.force = TRUE])
ExtTaint == EnvNode("ExtTaint", LAMBDA o : ~o.taint.has, LAMBDA o : [o EXCEPT !.taint = [has |-> TRUE, ok |-> TRUE, at |-> now]])
\* an instance disappears from its ASG behind escalator's back (its Node object stays): the next removal of that node is "not in group"
InstanceLost == On("InstanceLost") /\ \E g \in GSet : \E n \in asg[g].members : asg' = [asg EXCEPT ![g].members = @ \ {n}]
                  /\ UNCHANGED <<now, api, run, pend, pc, ctl, accepted, alive>>
Restart == On("Restart") /\ ~alive /\ alive' = TRUE /\ ctl' = [g \in GSet |-> Ctl0(g)] /\ accepted' = [g \in GSet |-> Never]
             /\ UNCHANGED <<now, api, run, pend, asg, pc>>

FaultUniverse ==
  {[op |-> o, t |-> n] : o \in FaultOps \cap {"get", "update", "delete", "terminate"}, n \in UNION {DOMAIN api[g] : g \in GSet}}
  \cup {[op |-> o, t |-> g] : o \in FaultOps \cap {"set_desired", "list_pods", "list_nodes"}, g \in GSet}

\* every combination of the groups' admissible choices
DummyObs == [g \in GSet |-> [att |-> <<>>, nd |-> 0, ndAny |-> FALSE, fleetLo |-> 0]]
Outcomes(W, F) ==
  LET nds(g) == RunOnce(W, F, DummyObs).res[g].ndSet
      Atts(g, d) == LET sel == RunOnce(W, F, [DummyObs EXCEPT ![g].nd = d]).res[g].sel
                    IN IF sel.dir = 0 THEN {<<>>} ELSE Selections(CreatedOf(W.groups[g]), sel.dir, sel.cands, sel.k, sel.fails)
      Choices(g) == UNION {{[att |-> a, nd |-> d, ndAny |-> FALSE, fleetLo |-> 0] : a \in Atts(g, d)} : d \in nds(g)}
      ObsSet == {o \in [GSet -> UNION {Choices(g) : g \in GSet}] : \A g \in GSet : o[g] \in Choices(g)}
  IN {r \in {RunOnce(W, F, o) : o \in ObsSet} : r.valid}

Touches(r, f) == \E i \in 1..Len(r.calls) : r.calls[i].op = f.op /\ (r.calls[i].n = f.t \/ (f.op \in {"set_desired", "list_pods", "list_nodes"} /\ r.calls[i].g = f.t))
Relevant(W, F) == {f \in FaultUniverse \ F : \E r \in Outcomes(W, F) : Touches(r, f)}
RECURSIVE Grow(_, _, _)
Grow(W, Fs, k) == IF k = 0 THEN Fs ELSE Grow(W, Fs \cup UNION {{F \cup {f} : f \in Relevant(W, F)} : F \in Fs}, k - 1)
FaultSets == Grow(World, {{}}, MaxFaults)

LineOf(W, F, r) == [ev |-> "scan", src |-> "model", id |-> 0, faults |-> SetToSortedSeq(F), calls |-> r.calls, ret |-> r.ret,
                    panic |-> FALSE, hang |-> FALSE, exit |-> FALSE, crash |-> r.crash, panicMsg |-> "", lookups |-> [g \in GSet |-> <<>>]]
PropViolations(W, F, r) == ViolationsFor(PropIds, LineOf(W, F, r), W, r.W, r)

\* C12 / C11 on the specification: what happens to group g does not depend on the state (or the dry flag) of another group h,
\* unless h stops the controller.  Blank(W, h): h without nodes and pods; Flip(W, h): h with its dry flag inverted.
Blank(W, h) == [W EXCEPT !.groups[h] = [@ EXCEPT !.api = [n \in {} |-> 0], !.view = [n \in {} |-> 0], !.order = <<>>, !.pods = <<>>]]
Flip(W, h) == [W EXCEPT !.groups[h].cfg.dry = ~@]
PostPart0(gs) == [api |-> gs.api, asg |-> gs.asg, pc |-> gs.pc, ctl |-> gs.ctl, accepted |-> gs.accepted]
Part(r, g) == [calls |-> r.res[g].calls, post |-> PostPart0(r.W.groups[g])]
Independent(W, W2, h) ==
  \A g \in GSet \ {h} :
    {Part(r, g) : r \in {x \in Outcomes(W, {}) : x.ret = "nil"}} = {Part(r, g) : r \in {x \in Outcomes(W2, {}) : x.ret = "nil"}}
       \/ (\A x \in Outcomes(W, {}) : x.ret # "nil") \/ (\A x \in Outcomes(W2, {}) : x.ret # "nil")
InvIsolation == ~alive \/ \A h \in GSet : Independent(World, Blank(World, h), h) /\ Independent(World, Flip(World, h), h)

RunOnceAct ==
  /\ alive
  /\ \E F \in FaultSets : \E r \in Outcomes(World, F) :
       /\ Assert(PropViolations(World, F, r) = {},
                 <<"PROPERTY VIOLATED ON THE MODEL", PropViolations(World, F, r), "MODELCASE",
                   ToJson([state |-> World, faultsets |-> <<SetToSortedSeq(F)>>])>>)
       /\ api' = [g \in GSet |-> r.W.groups[g].api] /\ asg' = [g \in GSet |-> r.W.groups[g].asg] /\ pc' = [g \in GSet |-> r.W.groups[g].pc]
       /\ ctl' = [g \in GSet |-> r.W.groups[g].ctl] /\ accepted' = [g \in GSet |-> r.W.groups[g].accepted]
       /\ alive' = r.W.alive
       /\ UNCHANGED <<now, pend, run>>

Next == Tick \/ PodArrive \/ PodSchedule \/ PodFinish \/ Cordon \/ ExtForce \/ ExtTaint \/ InstanceLost \/ Restart \/ RunOnceAct
Spec == Init /\ [][Next]_vars

TypeOK == \A g \in GSet : pend[g] \in 0..MaxPend /\ DOMAIN api[g] \subseteq NodeIdsOf[g]
Emit == \/ EmitRate = 0 \/ ~alive \/ RandomElement(1..EmitRate) # 1
        \/ PrintT(ToJson([kind |-> "STATE", state |-> World, faultsets |-> SetToSortedSeq({SetToSortedSeq(F) : F \in FaultSets})]))

CapT(g) == Max2(Max2(CfgOf[g].hard, CfgOf[g].cool), CfgOf[g].maxAge) + 1
Sat(g, x) == IF now - x > CapT(g) THEN CapT(g) ELSE IF now - x < -1 THEN -1 ELSE now - x
Rank(g, n) == Cardinality({m \in DOMAIN api[g] : api[g][m].created < api[g][n].created})
View == << [g \in GSet |-> [n \in DOMAIN api[g] |->
              [api[g][n] EXCEPT !.created = <<Rank(g, n), api[g][n].created = now,
                                              IF api[g][n].created > ctl[g].lastOut THEN 1 ELSE IF api[g][n].created = ctl[g].lastOut THEN 0 ELSE -1>>,
                                !.taint = IF @.has /\ @.ok THEN [@ EXCEPT !.at = Sat(g, @)] ELSE @]]],
           run, pend, asg, pc,
           [g \in GSet |-> [ctl[g] EXCEPT !.lockAt = Sat(g, @), !.lastOut = Sat(g, @)]],
           [g \in GSet |-> Sat(g, accepted[g])], alive >>
=============================================================================
