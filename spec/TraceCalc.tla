------------------------------ MODULE TraceCalc -----------------------------
(* Validates records of the real arithmetic functions (harness `calc`) against Calc.tla: C05 (scale-up size) and C13       *)
(* (request totals, capacity totals, utilisation, order independence).                                                     *)
EXTENDS Calc, Json, TLC

CONSTANTS TraceFile
Trace == ndJsonDeserialize(TraceFile)
VARIABLE l

Pods(c) == [i \in 1..Len(c.pods) |-> [cs |-> c.pods[i].cs, is |-> c.pods[i].is, oh |-> c.pods[i].oh]]

DeltaViol(o) ==
  LET c == o.case
      cc == c.n * c.kc   cm == c.n * c.km
      need == NeedBoth(c.rc, c.rm, c.kc, c.km, c.t)
      exceeds == Exceeds(c.rc, c.rm, cc, cm, c.t)
      strictlyBelow == 100 * c.rc < c.t * cc /\ 100 * c.rm < c.t * cm
  IN IF c.n > 0 THEN
       (IF o.pctErr THEN {<<"C13", "percent-error-with-capacity">>} ELSE {})
       \cup (IF ~o.pctErr /\ ~(Near(o.cpuPct, c.rc, cc) /\ Near(o.memPct, c.rm, cm)) THEN {<<"C13", "percent-not-100-req-over-cap">>} ELSE {})
       \cup (IF exceeds /\ ~o.called THEN {<<"C05", "above-threshold-not-scaled">>} ELSE {})
       \cup (IF strictlyBelow /\ o.called THEN {<<"C05", "scaled-below-threshold">>} ELSE {})
       \cup (IF o.called /\ o.dErr THEN {<<"C05", "delta-error">>} ELSE {})
       \cup (IF exceeds /\ o.called /\ ~o.dErr /\ c.n + o.delta < need THEN {<<"C05", "insufficient">>} ELSE {})
       \cup (IF exceeds /\ o.called /\ ~o.dErr /\ c.n + o.delta > need + 1 THEN {<<"C05", "more-than-one-extra">>} ELSE {})
       \cup (IF ~exceeds /\ o.called /\ ~o.dErr /\ o.delta > 1 THEN {<<"C05", "more-than-one-extra-at-threshold">>} ELSE {})
     ELSE IF c.rc = 0 /\ c.rm = 0 THEN
       (IF o.called \/ o.pctErr THEN {<<"C05", "scaled-from-zero-without-requests">>} ELSE {})
     ELSE
       (IF ~o.called \/ o.pctErr \/ o.dErr THEN {<<"C05", "no-scale-up-from-zero">>} ELSE {})
       \cup (IF o.called /\ ~c.cached /\ o.delta # 1 THEN {<<"C05", "from-zero-without-cache-not-one">>} ELSE {})
       \cup (IF o.called /\ c.cached /\ o.delta < need THEN {<<"C05", "from-zero-insufficient">>} ELSE {})
       \cup (IF o.called /\ c.cached /\ o.delta > need + 1 THEN {<<"C05", "from-zero-more-than-one-extra">>} ELSE {})
DeltaFacts(o) ==
  LET c == o.case IN
  (IF c.n > 0 /\ Exceeds(c.rc, c.rm, c.n * c.kc, c.n * c.km, c.t) THEN {"C05:above-threshold"} ELSE {})
  \cup (IF c.n > 0 /\ o.called /\ ~o.dErr /\ c.n + o.delta = NeedBoth(c.rc, c.rm, c.kc, c.km, c.t) + 1 THEN {"C05:one-extra"} ELSE {})
  \cup (IF c.n > 0 /\ (100 * c.rc = c.t * c.n * c.kc \/ 100 * c.rm = c.t * c.n * c.km) THEN {"C05:exactly-on-threshold"} ELSE {})
  \cup (IF c.n > 0 /\ 100 * c.rm * c.kc > 100 * c.rc * c.km THEN {"C05:memory-bound"} ELSE {"C05:cpu-bound"})
  \cup (IF c.n = 0 /\ c.cached /\ o.called THEN {"C05:from-zero-cached"} ELSE {})
  \cup (IF c.n = 0 /\ ~c.cached /\ o.called THEN {"C05:from-zero-no-cache"} ELSE {})
  \cup (IF c.n > 0 /\ ~o.pctErr THEN {"C13:percent"} ELSE {})
  \cup (IF o.scale > 1 THEN {"C05:large-magnitude"} ELSE {})
  \cup (IF o.scale >= 1048576 /\ c.rm >= 84 THEN {"C05:memory-total-beyond-int64-headroom"} ELSE {})

TotViol(o, ec, em, what) ==
  (IF \E i \in 1..Len(o.totals) : o.totals[i] # o.totals[1] THEN {<<"C13", what \o "-order-dependent">>} ELSE {})
  \cup (IF \E i \in 1..Len(o.totals) : o.totals[i] # <<ec, em>> THEN {<<"C13", what \o "-total">>} ELSE {})

CheckLine(i) ==
  LET o == Trace[i]
      viol == IF o.case.kind = "delta" THEN DeltaViol(o)
              ELSE IF o.case.kind = "pods" THEN TotViol(o, TotalCpu(Pods(o.case)), TotalMem(Pods(o.case)), "request")
              ELSE TotViol(o, CapCpuN(o.case.nodes), CapMemN(o.case.nodes), "capacity")
      facts == IF o.case.kind = "delta" THEN DeltaFacts(o)
               ELSE IF o.case.kind = "pods" THEN {"C13:pods"} \cup (IF Len(o.case.pods) > 1 THEN {"C13:pods-permuted"} ELSE {})
                     \cup (IF \E j \in 1..Len(o.case.pods) : Len(o.case.pods[j].is) > 0 /\ MaxS(o.case.pods[j].is, LAMBDA x : V(x[1])) > SumS(o.case.pods[j].cs, LAMBDA x : V(x[1])) THEN {"C13:init-dominates"} ELSE {})
                     \cup (IF \E j \in 1..Len(o.case.pods) : o.case.pods[j].oh # <<-1, -1>> THEN {"C13:overhead"} ELSE {})
               ELSE {"C13:nodes"} \cup (IF Len(o.case.nodes) > 1 THEN {"C13:nodes-permuted"} ELSE {})
  IN /\ IF viol = {} THEN TRUE ELSE PrintT(ToJson([kind |-> "VIOLATIONS", line |-> i, src |-> o.src, id |-> i, v |-> {<<x[1], x[2], "", "">> : x \in viol}]))
     /\ PrintT(ToJson([kind |-> "LINE", line |-> i, branches |-> [k \in {"case"} |-> o.case.kind], facts |-> facts]))

Init == l = 1
Next == l <= Len(Trace) /\ CheckLine(l) /\ l' = l + 1
Done == PrintT(ToJson([kind |-> "DONE", lines |-> Len(Trace), reached |-> TLCGet("stats").diameter - 1]))
=============================================================================
