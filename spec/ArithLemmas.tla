---------------------------- MODULE ArithLemmas ----------------------------
(***************************************************************************)
(* The two clamps of the scan, for UNBOUNDED node counts (the model        *)
(* checker only sees 2-4 nodes): the taint count of scaleDownTaint         *)
(* (EscalatorCore!GroupScan, "k") never takes the untainted count below    *)
(* min_nodes, and the cloud request of scaleUpCloudProviderNodeGroup       *)
(* (EscalatorCore!ScaleUpOutcome, "add") never exceeds the bound and lands *)
(* exactly on it when clamped.  Proved with TLAPS (tlapm, SMT back end).   *)
(***************************************************************************)
EXTENDS Clamps, TLAPS

THEOREM TaintClampKeepsMinimum ==
  \A nUnt, rate, mn \in Int :
     rate >= 0 /\ TaintCount(nUnt, rate, mn) >= 0 => nUnt - TaintCount(nUnt, rate, mn) >= mn
  BY DEF TaintCount

THEOREM TaintClampIsMinOfRateAndRoom ==
  \A nUnt, rate, mn \in Int :
     rate >= 0 /\ nUnt >= mn =>
        TaintCount(nUnt, rate, mn) = (IF rate < nUnt - mn THEN rate ELSE nUnt - mn)
  BY DEF TaintCount

THEOREM CloudTargetWithinBound ==
  \A desired, rest, bound \in Int : desired + AddClamp(desired, rest, bound) <= bound
  BY DEF AddClamp

THEOREM ClampLandsOnBound ==
  \A desired, rest, bound \in Int :
     rest > 0 /\ desired + rest > bound /\ bound - desired > 0 => desired + AddClamp(desired, rest, bound) = bound
  BY DEF AddClamp

THEOREM NoHeadroomNoRequest ==
  \A desired, rest, bound \in Int :
     rest > 0 /\ bound - desired <= 0 => AddClamp(desired, rest, bound) <= 0
  BY DEF AddClamp

\* the bound itself
Min2(a, b) == IF a < b THEN a ELSE b
THEOREM BoundIsBelowBoth == \A a, b \in Int : Min2(a, b) <= a /\ Min2(a, b) <= b  BY DEF Min2
=============================================================================
