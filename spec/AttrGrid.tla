------------------------------ MODULE AttrGrid ------------------------------
(* Enumerates the pod / node shape universe of Attribution.tla as cases for the real filter functions and listers. *)
EXTENDS Attribution, Json, TLC
CONSTANTS Tier
VARIABLE case
\* sanity of the specification itself: a DaemonSet pod never counts; a matching nodeSelector always does otherwise
SpecOK == case.kind = "node" \/ ((IsDaemonSet(case) => ~InGroup(case) /\ ~InDefault(case)) /\ (~IsDaemonSet(case) /\ SelectsGroup(case) => InGroup(case))
                                 /\ (InDefault(case) => ~InGroup(case)))
Emit == PrintT(ToJson([kind |-> "CASE", case |-> case]))
Init == case \in (PodUniverse(Tier) \cup NodeUniverse)
Next == UNCHANGED case
=============================================================================
