CONSTANTS
  Tier = "quick"
INIT Init
NEXT Next
INVARIANTS SpecOK Emit
CHECK_DEADLOCK FALSE
