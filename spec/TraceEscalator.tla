--------------------------- MODULE TraceEscalator ---------------------------
(***************************************************************************)
(* Trace specification: every line of the ndjson trace recorded from the   *)
(* real controller (harness `drive` / `states` / `replay`) is checked      *)
(*  (i)  for conformance: the observed calls, return value and post-state  *)
(*       are the ones EscalatorCore!RunOnce admits for the logged          *)
(*       pre-state, fault set and observed tie-breaks;                     *)
(*  (ii) against the property predicates of Props.tla.                     *)
(* Every failing line is reported (one JSON line on stdout), none stops    *)
(* the run.                                                                *)
(***************************************************************************)
EXTENDS EscalatorCore, Props, Json, SequencesExt

CONSTANTS TraceFile

Trace == ndJsonDeserialize(TraceFile)

VARIABLE l

-----------------------------------------------------------------------------
\* JSON arrays that stand for sets become sets
NormAsg(a) == [a EXCEPT !.members = ToSet(a.members), !.terminating = ToSet(a.terminating)]
NormGroup(gs) == [gs EXCEPT !.asg = NormAsg(gs.asg), !.pc = NormAsg(gs.pc)]
NormWorld(W) == [W EXCEPT !.groups = [g \in DOMAIN W.groups |-> NormGroup(W.groups[g])]]
FaultSet(line) == ToSet(line.faults)

\* observed choices: attempted nodes (GET calls of the group, or the dry-mode tracker difference) and the band decision
GetSeq(line, g) == LET cs == SelectSeq(line.calls, LAMBDA c : c.op = "get" /\ c.g = g) IN [i \in 1..Len(cs) |-> cs[i].n]

DryAtt(pre, post, g) ==
  LET t0 == pre.groups[g].ctl.tracker
      t1 == post.groups[g].ctl.tracker
      created == CreatedOf(pre.groups[g])
      removed == {t0[i] : i \in 1..Len(t0)} \ {t1[i] : i \in 1..Len(t1)}
  IN IF Len(t1) >= Len(t0) THEN SubSeq(t1, Len(t0) + 1, Len(t1))
     ELSE SortSeq(SetToSeq(removed), LAMBDA a, b : IF a \in DOMAIN created /\ b \in DOMAIN created THEN created[a] > created[b] ELSE FALSE)

\* the group scanned last (the one whose scan returned the fatal error, if any)
LastScanned(line) == LET cs == SelectSeq(line.calls, LAMBDA c : c.op = "list_pods") IN IF cs = <<>> THEN "" ELSE cs[Len(cs)].g

ObsOf(line, pre, post) ==
  [g \in DOMAIN pre.groups |->
     [att |-> IF DryOf(pre.groups[g], pre.dryAll) THEN DryAtt(pre, post, g) ELSE GetSeq(line, g),
      nd  |-> post.groups[g].ctl.delta,
      fleetLo |-> LET f == SelectSeq(line.calls, LAMBDA c : c.op = "fleet_ids" /\ c.g = g) IN IF f = <<>> THEN 0 ELSE f[1].a,
      ndAny |-> line.ret = "notingroup" /\ g = LastScanned(line)]]

\* components of the post-state that the scan determines
PostPart(gs) == [api |-> gs.api, asg |-> gs.asg, pc |-> gs.pc, ctl |-> gs.ctl, accepted |-> gs.accepted]

\* a scan that died at a crash point: what was recorded must be the prefix of an admissible scan (the band decision is not
\* observable, so every admissible one is tried); controller memory is gone and is not compared
CrashMismatch(line, pre, post, obs) ==
  LET F == FaultSet(line)
      gLast == LastScanned(line)
      probe == RunOnce(pre, {f \in F : f.op # "crash"}, obs)
      nds == IF gLast \in DOMAIN pre.groups THEN probe.res[gLast].ndSet ELSE {0}
      cands == {RunOnce(pre, F, [obs EXCEPT ![gLast].nd = d]) : d \in nds}
      fits(e) == /\ e.crash /\ e.calls = line.calls
                 /\ \A g \in DOMAIN pre.groups : e.W.groups[g].api = post.groups[g].api /\ e.W.groups[g].asg = post.groups[g].asg
  IN (IF gLast \in DOMAIN pre.groups /\ \E e \in cands : fits(e) THEN {} ELSE {"crash-prefix"})
     \cup (IF line.panic \/ line.hang \/ line.exit THEN {"panic-hang-exit"} ELSE {})

Mismatch(line, pre, post, exp) ==
  LET gs == DOMAIN pre.groups
      perGroup == UNION {{IF exp.W.groups[g].api # post.groups[g].api THEN "post.api" ELSE "ok",
               IF exp.W.groups[g].asg # post.groups[g].asg THEN "post.asg" ELSE "ok",
               IF exp.W.groups[g].pc # post.groups[g].pc THEN "post.pc" ELSE "ok",
               IF exp.W.groups[g].ctl # post.groups[g].ctl THEN "post.ctl" ELSE "ok",
               IF exp.W.groups[g].accepted # post.groups[g].accepted THEN "post.accepted" ELSE "ok",
               IF exp.W.groups[g].tries # post.groups[g].tries THEN "post.tries" ELSE "ok",
               IF "gauges" \in DOMAIN line /\ g \in DOMAIN line.gauges /\ line.gauges[g].nAll >= 0 /\ exp.res[g].counts.all >= 0
                  /\ <<line.gauges[g].nAll, line.gauges[g].nCord, line.gauges[g].nUnt, line.gauges[g].nTaint, line.gauges[g].nForce, line.gauges[g].nPods>>
                     # <<exp.res[g].counts.all, exp.res[g].counts.cord, exp.res[g].counts.unt, exp.res[g].counts.taint, exp.res[g].counts.force, exp.res[g].counts.pods>>
                 THEN "gauges.counts" ELSE "ok",
               IF ~(exp.res[g].lookReq \subseteq ToSet(line.lookups[g]) /\ ToSet(line.lookups[g]) \subseteq exp.res[g].lookMay)
                 THEN "lookups" ELSE "ok"} : g \in gs}
  IN (IF ~exp.valid THEN {"choice-not-admissible"} ELSE {})
  \cup (IF exp.calls # line.calls THEN {"calls"} ELSE {})
  \cup (IF exp.ret # line.ret THEN {"ret"} ELSE {})
  \cup (IF line.panic THEN {"panic"} ELSE {})
  \cup (IF line.hang THEN {"hang"} ELSE {})
  \cup (IF line.exit # exp.exit THEN {"exit"} ELSE {})
  \cup (IF exp.W.alive # post.alive THEN {"alive"} ELSE {})
  \cup (IF exp.W.now # post.now THEN {"post.now"} ELSE {})
  \cup (perGroup \ {"ok"})

Branches(exp) == [g \in DOMAIN exp.res |-> exp.res[g].branch]

CheckLine(i) ==
  LET line == Trace[i]
      pre == NormWorld(line.pre)
      post == NormWorld(line.post)
      obs == ObsOf(line, pre, post)
      exp == RunOnce(pre, FaultSet(line), obs)
      mm == IF line.crash THEN CrashMismatch(line, pre, post, obs) ELSE Mismatch(line, pre, post, exp) \cup (IF exp.crash THEN {"crash-expected"} ELSE {})
      \* time passes inside a scan only through a slow cloud call of the group scanned last (the generators produce nothing else):
      \* the predicates read the clock of the pre-state, which is then the clock of every decision of the scan
      slowOK == \A f \in FaultSet(line) : f.op = "slow" => (pre.gorder # <<>> /\ f.t = pre.gorder[Len(pre.gorder)])
      viol == IF slowOK THEN Violations(line, pre, post, exp) ELSE {}
  IN /\ IF mm = {} THEN TRUE ELSE PrintT(ToJson([kind |-> "DIVERGENCE", line |-> i, src |-> line.src, id |-> line.id, what |-> mm,
                                  branches |-> Branches(exp),
                                  expCalls |-> exp.calls]))
     /\ IF viol = {} THEN TRUE ELSE PrintT(ToJson([kind |-> "VIOLATIONS", line |-> i, src |-> line.src, id |-> line.id, v |-> viol]))
     /\ PrintT(ToJson([kind |-> "LINE", line |-> i, branches |-> Branches(exp), facts |-> Facts(line, pre, post, exp)]))

Init == l = 1
Next == l <= Len(Trace) /\ CheckLine(l) /\ l' = l + 1
Done == PrintT(ToJson([kind |-> "DONE", lines |-> Len(Trace), reached |-> TLCGet("stats").diameter - 1]))
=============================================================================
