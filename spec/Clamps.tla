------------------------------- MODULE Clamps -------------------------------
(* The two clamps of the scan as operators of their own, so that the very definitions the model and the trace specification *)
(* use (EscalatorCore) are the ones ArithLemmas.tla proves correct for unbounded integers.                                  *)
EXTENDS Integers

\* scale_down.go scaleDownTaint: how many nodes to taint, given the untainted count, the band's rate and min_nodes
TaintCount(nUnt, rate, mn) == IF nUnt - rate < mn THEN nUnt - mn ELSE rate

\* scale_up.go calculateNodesToAdd: how many instances to request on top of `desired`, given the remainder and the upper bound
AddClamp(desired, rest, bound) == IF desired + rest > bound THEN bound - desired ELSE rest
=============================================================================
