CONSTANTS
  TraceFile = "trace.ndjson"
INIT Init
NEXT Next
POSTCONDITION Done
CHECK_DEADLOCK FALSE
