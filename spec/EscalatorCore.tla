--------------------------- MODULE EscalatorCore ---------------------------
(***************************************************************************)
(* Pure operators describing one escalator scan (RunOnce) as a function of *)
(* the abstract world state, the set of injected faults and the two        *)
(* choices the code does not control (tie-breaks of the unstable sort,     *)
(* float rounding exactly on a threshold).  No variables: this module is   *)
(* shared by the model (Escalator.tla) and the trace specification         *)
(* (TraceEscalator.tla).  One LET per code block, in code order; the code  *)
(* references are to /repo/pkg at the pinned commit plus the fix: commits. *)
(*                                                                         *)
(* State records use the field names of DESIGN.md appendix A / the JSON    *)
(* written by the harness (harness/world/abs.go).                          *)
(***************************************************************************)
EXTENDS Integers, Sequences, FiniteSets, TLC, AwsCore, Clamps

Never == -100000

Max2(a, b) == IF a > b THEN a ELSE b
\* ceiling of a/b for b > 0 and any integer a
CeilDiv(a, b) == -((-a) \div b)

SumSeq(s, f(_)) == LET S[i \in 0..Len(s)] == IF i = 0 THEN 0 ELSE f(s[i]) + S[i - 1] IN S[Len(s)]

MaxSeq(s, f(_), base) == LET S[i \in 0..Len(s)] == IF i = 0 THEN base ELSE Max2(f(s[i]), S[i - 1]) IN S[Len(s)]

SeqToSet(s) == {s[i] : i \in 1..Len(s)}
Filter(s, P(_)) == SelectSeq(s, P)
CountSeq(s, P(_)) == Len(SelectSeq(s, P))

RECURSIVE SetToSortedSeq(_)
\* a sequence enumerating a set of strings / ints in some fixed order (TLC's CHOOSE is deterministic)
SetToSortedSeq(S) == IF S = {} THEN <<>> ELSE LET x == CHOOSE x \in S : TRUE IN <<x>> \o SetToSortedSeq(S \ {x})

-----------------------------------------------------------------------------
(* Calls: uniform records, as written by the harness *)

Call(op, g, n, ok, a, b, s) == [op |-> op, g |-> g, n |-> n, ok |-> ok, a |-> a, b |-> b, s |-> s, r |-> <<>>]

Failing(F, op, t) == \E f \in F : f.op = op /\ (f.t = t \/ f.t = "all")

Writes == {"update", "delete", "terminate", "set_desired", "create_fleet", "attach", "terminate_instances"}
IsWrite(c) == c.op \in Writes

-----------------------------------------------------------------------------
(* Views of a group record gs *)

ViewOf(gs) == IF gs.lag THEN gs.view ELSE gs.api

DryOf(gs, dryAll) == dryAll \/ gs.cfg.dry

EffectOf(gs) == IF gs.cfg.effect = "" THEN "NoSchedule" ELSE gs.cfg.effect

\* controller.go:121-171 filterNodes.  Sequences keep the lister order.
Cordoned(gs, dry)  == IF dry THEN <<>> ELSE Filter(gs.order, LAMBDA n : ViewOf(gs)[n].cordoned)
ForceT(gs, dry)    == IF dry THEN <<>>   \* forceTaintTracker is never written: empty
                      ELSE Filter(gs.order, LAMBDA n : ~ViewOf(gs)[n].cordoned /\ ViewOf(gs)[n].force)
TaintedS(gs, dry)  == IF dry THEN Filter(gs.order, LAMBDA n : n \in SeqToSet(gs.ctl.tracker))
                      ELSE Filter(gs.order, LAMBDA n : LET v == ViewOf(gs)[n] IN ~v.cordoned /\ ~v.force /\ v.taint.has)
UntaintedS(gs, dry) == IF dry THEN Filter(gs.order, LAMBDA n : n \notin SeqToSet(gs.ctl.tracker))
                       ELSE Filter(gs.order, LAMBDA n : LET v == ViewOf(gs)[n] IN ~v.cordoned /\ ~v.force /\ ~v.taint.has)

\* group pods whose nodeName is n (k8s/node_state.go: NodePodsRemaining; DaemonSet pods are not group pods)
PodsOn(gs, n) == CountSeq(gs.pods, LAMBDA p : p.node = n)
EmptyNode(gs, n) == PodsOn(gs, n) = 0

ReqCpu(gs) == SumSeq(gs.pods, LAMBDA p : p.cpu)
ReqMem(gs) == SumSeq(gs.pods, LAMBDA p : p.mem)
CapCpu(gs, unt) == SumSeq(unt, LAMBDA n : ViewOf(gs)[n].cpu)
CapMem(gs, unt) == SumSeq(unt, LAMBDA n : ViewOf(gs)[n].mem)

\* k8s/util.go: largest pending pod / largest free node (scale_on_starve)
UsesNode(p) == p.sched
MaxPendCpu(gs) == MaxSeq(Filter(gs.pods, LAMBDA p : p.pending), LAMBDA p : p.cpu, 0)
MaxPendMem(gs) == MaxSeq(Filter(gs.pods, LAMBDA p : p.pending), LAMBDA p : p.mem, 0)
FreeCpu(gs, n) == ViewOf(gs)[n].cpu - SumSeq(Filter(gs.pods, LAMBDA p : p.node = n /\ UsesNode(p)), LAMBDA p : p.cpu)
FreeMem(gs, n) == ViewOf(gs)[n].mem - SumSeq(Filter(gs.pods, LAMBDA p : p.node = n /\ UsesNode(p)), LAMBDA p : p.mem)
MaxFreeCpu(gs, unt) == MaxSeq(unt, LAMBDA n : FreeCpu(gs, n), 0)
MaxFreeMem(gs, unt) == MaxSeq(unt, LAMBDA n : FreeMem(gs, n), 0)

-----------------------------------------------------------------------------
(* Selection of the oldest / newest N with skipped failures (scale_down.go taintOldestN,          *)
(* scale_up.go untaintNewestN).  att is the sequence of attempted nodes in order.                 *)
(* dir = 1: oldest first, dir = -1: newest first.  fails: set of attempted nodes whose write      *)
(* (get or update) fails.  sort.Sort is unstable: ties may come in any order.                     *)

Before(created, dir, a, b) == IF dir = 1 THEN created[a] < created[b] ELSE created[a] > created[b]

SelectOKSeq(created, dir, cands, k, fails, att) ==
  LET A == SeqToSet(att)
      succ(i) == Cardinality({j \in 1..i : att[j] \notin fails})      \* successes among the first i attempts
  IN /\ A \subseteq cands
     /\ Cardinality(A) = Len(att)                                             \* no node twice
     /\ \A i, j \in 1..Len(att) : i < j => ~Before(created, dir, att[j], att[i])   \* sorted
     /\ \A a \in A, u \in cands \ A : ~Before(created, dir, u, a)             \* a prefix of the sorted order
     /\ \A i \in 1..Len(att) : succ(i - 1) < k                                \* the loop had not stopped before attempt i
     /\ (succ(Len(att)) >= k \/ A = cands)                                    \* it stopped at the k-th success or ran out

\* every admissible attempt sequence (used by the model; the trace specification plugs in the observed one)
RECURSIVE SeqsOver(_)
SeqsOver(S) == {<<>>} \cup UNION {{<<x>> \o t : t \in SeqsOver(S \ {x})} : x \in S}

Selections(created, dir, cands, k, fails) ==
  {att \in SeqsOver(cands) : SelectOKSeq(created, dir, cands, k, fails, att)}

-----------------------------------------------------------------------------
(* Bands (controller.go:361-390, util.go).  Exact rational arithmetic by cross-multiplication.    *)
(* Exactly on a threshold the float computation may land on either side: both are admitted.       *)
(* n = number of untainted nodes.  Result: the set of admissible raw nodesDelta values.           *)

\* admissible values of math.Ceil(x) for x = num/den computed in floating point (den > 0):
\* the exact ceiling, and one more when x is exactly an integer (rounding may land just above it)
CeilF(num, den) == {CeilDiv(num, den)} \cup (IF num % den = 0 THEN {CeilDiv(num, den) + 1} ELSE {})
\* the same, except that an exact zero stays zero (0 / x * y is exactly 0 in floating point)
CeilF0(num, den) == IF num = 0 THEN {0} ELSE CeilF(num, den)

\* calcScaleUpDelta, ordinary case: ceil(n * (pct - up) / up) per resource with pct = 100 req / cap
NeedOne(req, cap, n, up) == CeilF(n * (100 * req - up * cap), up * cap)
\* scale-up from zero with a cached node size: ceil(req / size / up * 100)
NeedZero(req, size, up) == CeilF0(100 * req, up * size)

MaxPairs(A, B) == {Max2(a, b) : a \in A, b \in B}

BandDeltas(rc, rm, cc, cm, n, cfg) ==
  LET lt(t) == 100 * rc < t * cc /\ 100 * rm < t * cm         \* max(cpu%, mem%) < t
      le(t) == 100 * rc <= t * cc /\ 100 * rm <= t * cm
      gt(t) == 100 * rc > t * cc \/ 100 * rm > t * cm         \* max(cpu%, mem%) > t
      ge(t) == 100 * rc >= t * cc \/ 100 * rm >= t * cm
      ups == {d \in MaxPairs(NeedOne(rc, cc, n, cfg.up), NeedOne(rm, cm, n, cfg.up)) : d >= 0}
  IN  (IF le(cfg.lower) THEN {-cfg.fast} ELSE {})
      \cup (IF ge(cfg.lower) /\ le(cfg.upper) THEN {-cfg.slow} ELSE {})
      \cup (IF ge(cfg.upper) /\ le(cfg.up) THEN {0} ELSE {})
      \cup (IF gt(cfg.up) THEN ups ELSE IF ge(cfg.up) THEN {1} ELSE {})

\* the strict decision (no tolerance): the value the documentation promises
BandStrict(rc, rm, cc, cm, n, cfg) ==
  IF 100 * rc < cfg.lower * cc /\ 100 * rm < cfg.lower * cm THEN -cfg.fast
  ELSE IF 100 * rc < cfg.upper * cc /\ 100 * rm < cfg.upper * cm THEN -cfg.slow
  ELSE IF 100 * rc > cfg.up * cc \/ 100 * rm > cfg.up * cm
       THEN Max2(CeilDiv(n * (100 * rc - cfg.up * cc), cfg.up * cc), CeilDiv(n * (100 * rm - cfg.up * cm), cfg.up * cm))
  ELSE 0

-----------------------------------------------------------------------------
(* Provider: DeleteNodes (aws.go:268-305) followed by the Node deletes (k8s/node.go), as called   *)
(* from TryDeleteNodes (scale_down.go:124-160).  r carries calls, pc, asg, api and the result.    *)

RECURSIVE TermLoop(_, _, _, _, _)
TermLoop(batch, i, g, F, r) ==
  IF i > Len(batch) THEN [r EXCEPT !.ok = TRUE]
  ELSE LET n == batch[i] IN
    IF n \notin r.pc.members \/ r.pids[n] # "ok"
      THEN [r EXCEPT !.ok = FALSE, !.ret = "notingroup"]                       \* Belongs() fails: stop, nothing further
    ELSE IF n \notin r.asg.members                                             \* the cache lists an instance the cloud no longer has
      THEN [r EXCEPT !.ok = FALSE, !.ret = "error", !.calls = Append(@, Call("terminate", "", n, FALSE, 1, 0, "unknown-instance"))]
    ELSE IF n \in r.asg.terminating                                            \* still listed, but already terminating: the cloud refuses
      THEN [r EXCEPT !.ok = FALSE, !.ret = "error", !.calls = Append(@, Call("terminate", g, n, FALSE, 1, 0, "terminating"))]
    ELSE IF Failing(F, "terminate", n)
      THEN [r EXCEPT !.ok = FALSE, !.ret = "error", !.calls = Append(@, Call("terminate", g, n, FALSE, 1, 0, "injected"))]
    ELSE IF r.asg.desired - 1 < r.asg.min
      THEN [r EXCEPT !.ok = FALSE, !.ret = "error", !.calls = Append(@, Call("terminate", g, n, FALSE, 1, 0, "min"))]
    ELSE TermLoop(batch, i + 1, g, F,
           [r EXCEPT !.calls = Append(@, Call("terminate", g, n, TRUE, 1, 1, "")),
                     !.terminated = @ \cup {n},
                     \* fix F6: the provider keeps its cached group in step with accepted terminations
                     !.pc = [@ EXCEPT !.desired = @ - 1, !.members = @ \ {n}],
                     \* the cloud decrements at once; the instance leaves the list at once, or lingers as Terminating
                     !.asg = IF @.linger THEN [@ EXCEPT !.desired = @ - 1, !.terminating = @ \cup {n}]
                             ELSE [@ EXCEPT !.desired = @ - 1, !.members = @ \ {n}]])

RECURSIVE DelLoop(_, _, _, _, _)
DelLoop(batch, i, g, F, r) ==
  IF i > Len(batch) THEN r
  ELSE LET n == batch[i] IN
    IF Failing(F, "delete", n)
      THEN [r EXCEPT !.ret = "error", !.ok = FALSE, !.calls = Append(@, Call("delete", g, n, FALSE, 0, 0, ""))]
    ELSE IF n \notin DOMAIN r.api       \* already gone from the API (lagging view): the API answers "not found"
      THEN [r EXCEPT !.ret = "error", !.ok = FALSE, !.calls = Append(@, Call("delete", g, n, TRUE, 0, 0, ""))]
    ELSE DelLoop(batch, i + 1, g, F,
           [r EXCEPT !.calls = Append(@, Call("delete", g, n, TRUE, 0, 0, "")),
                     !.deleted = @ \cup {n},
                     !.api = [m \in (DOMAIN @) \ {n} |-> @[m]]])

\* r0: [calls, pc, asg, api, pids, terminated, deleted, ret, ok]
DeleteBatch(batch, g, F, r0) ==
  LET r == [r0 EXCEPT !.ret = "nil", !.ok = TRUE] IN
  IF Len(batch) = 0 THEN r
  ELSE IF r.pc.desired <= r.pc.min \/ r.pc.desired - Len(batch) < r.pc.min
    THEN [r EXCEPT !.ret = "error", !.ok = FALSE]
  ELSE LET t == TermLoop(batch, 1, g, F, r) IN
       IF t.ok THEN DelLoop(batch, 1, g, F, t) ELSE t

-----------------------------------------------------------------------------
(* Taint / untaint loops given the attempt sequence att (k8s/taint.go).  Returns calls, the new   *)
(* API content, the number of successes and the dry-mode tracker.                                 *)

\* a write on node n fails when get or update is failing, or the node is gone from the API
GetFails(F, api, n) == Failing(F, "get", n) \/ n \notin DOMAIN api
\* a node write fails outright, or loses a race: another writer changed the object after it was read (here: set the no-delete
\* annotation) and the API server answers 409 Conflict; either way the node is skipped, nothing is retried
UpdFails(F, n) == Failing(F, "update", n) \/ Failing(F, "conflict", n)
AfterConflict(F, n, api) == IF Failing(F, "conflict", n) /\ ~Failing(F, "update", n) THEN [api EXCEPT ![n].nodel = TRUE] ELSE api

RECURSIVE TaintLoop(_, _, _, _, _, _, _)
TaintLoop(att, i, g, F, now, eff, r) ==
  IF i > Len(att) THEN r
  ELSE LET n == att[i] IN
    IF Failing(F, "get", n) THEN TaintLoop(att, i + 1, g, F, now, eff, [r EXCEPT !.calls = Append(@, Call("get", g, n, FALSE, 0, 0, ""))])
    ELSE IF n \notin DOMAIN r.api THEN TaintLoop(att, i + 1, g, F, now, eff, [r EXCEPT !.calls = Append(@, Call("get", g, n, TRUE, 0, 0, ""))])
    ELSE IF r.api[n].taint.has      \* the latest copy already carries the taint: counts, no write, no re-stamp
      THEN TaintLoop(att, i + 1, g, F, now, eff, [r EXCEPT !.calls = Append(@, Call("get", g, n, TRUE, 0, 0, "")), !.succ = @ + 1])
    ELSE IF UpdFails(F, n)
      THEN TaintLoop(att, i + 1, g, F, now, eff,
             [r EXCEPT !.calls = @ \o <<Call("get", g, n, TRUE, 0, 0, ""), Call("update", g, n, FALSE, now, 1, "taint:" \o eff)>>,
                       !.api = AfterConflict(F, n, @)])
    ELSE TaintLoop(att, i + 1, g, F, now, eff,
             [r EXCEPT !.calls = @ \o <<Call("get", g, n, TRUE, 0, 0, ""), Call("update", g, n, TRUE, now, 1, "taint:" \o eff)>>,
                       !.succ = @ + 1, !.tainted = @ \cup {n},
                       !.api = [@ EXCEPT ![n].taint = [has |-> TRUE, ok |-> TRUE, at |-> now]]])

RECURSIVE UntaintLoop(_, _, _, _, _)
UntaintLoop(att, i, g, F, r) ==
  IF i > Len(att) THEN r
  ELSE LET n == att[i] IN
    IF Failing(F, "get", n) THEN UntaintLoop(att, i + 1, g, F, [r EXCEPT !.calls = Append(@, Call("get", g, n, FALSE, 0, 0, ""))])
    ELSE IF n \notin DOMAIN r.api THEN UntaintLoop(att, i + 1, g, F, [r EXCEPT !.calls = Append(@, Call("get", g, n, TRUE, 0, 0, ""))])
    ELSE IF ~r.api[n].taint.has     \* nothing to remove in the latest copy: counts, no write
      THEN UntaintLoop(att, i + 1, g, F, [r EXCEPT !.calls = Append(@, Call("get", g, n, TRUE, 0, 0, "")), !.succ = @ + 1])
    ELSE IF UpdFails(F, n)
      THEN UntaintLoop(att, i + 1, g, F,
             [r EXCEPT !.calls = @ \o <<Call("get", g, n, TRUE, 0, 0, ""), Call("update", g, n, FALSE, 0, 1, "untaint:")>>,
                       !.api = AfterConflict(F, n, @)])
    ELSE UntaintLoop(att, i + 1, g, F,
             [r EXCEPT !.calls = @ \o <<Call("get", g, n, TRUE, 0, 0, ""), Call("update", g, n, TRUE, 0, 1, "untaint:")>>,
                       !.succ = @ + 1, !.untainted = @ \cup {n},
                       !.api = [@ EXCEPT ![n].taint = [has |-> FALSE, ok |-> FALSE, at |-> 0]]])

\* nodes of att whose write fails (for SelectOKSeq), w.r.t. the API content at the start of the loop
WriteFails(F, api, att) == {n \in SeqToSet(att) : GetFails(F, api, n) \/ UpdFails(F, n)}
\* for tainting, a node that already carries the taint in the API succeeds without an update
TaintFails(F, api, att) == {n \in SeqToSet(att) : GetFails(F, api, n) \/ (~api[n].taint.has /\ UpdFails(F, n))}
UntaintFails(F, api, att) == {n \in SeqToSet(att) : GetFails(F, api, n) \/ (api[n].taint.has /\ UpdFails(F, n))}

-----------------------------------------------------------------------------
(* One group's scan: controller.go scaleNodeGroup + the per-group part of RunOnce.                *)
(*   gs   : group record       now, dryAll : world     F : fault set (records [op, t])            *)
(*   obs  : [att |-> sequence of nodes on which a taint/untaint write was attempted,              *)
(*           nd  |-> the raw band decision (only read when the scan reaches the band switch)]     *)
(* Result: [calls, gs (post), ret ("nil" | "error" | "notingroup"), valid, lookReq, lookMay, ...] *)

CreatedOf(gs) == [n \in DOMAIN ViewOf(gs) |-> ViewOf(gs)[n].created]

\* aws.go setASGDesiredSizeOneShot through AwsCore!IncResult: the CreateFleet path as seen from the controller.
\* lo: number of the first instance the fleet returned (observed; 0 in the model).  Instances are named "f<k>".
FleetPlan(F, g) ==
  [failDescribe |-> Failing(F, "describe_asgs", "#2"), failCreate |-> Failing(F, "create_fleet", g), noCapacity |-> Failing(F, "create_fleet_none", g),
   failSet |-> FALSE,
   failAttach |-> IF \E f \in F : f.op = "attach" /\ f.t \in {"#1", "#2", "#3"} THEN (IF Failing(F, "attach", "#1") THEN 1 ELSE IF Failing(F, "attach", "#2") THEN 2 ELSE 3) ELSE 0,
   failTerm |-> {k \in 1..3 : Failing(F, "terminate_instances", "#" \o ToString(k))}]
FleetCase(u, g, F, add, lo) ==
  [min |-> u.pc.min, max |-> u.pc.max, desired |-> u.pc.desired, d |-> add, fleet |-> TRUE, lifecycle |-> "", types |-> 0, subnets |-> 2, tagging |-> FALSE,
   never |-> Failing(F, "status", g), tries0 |-> u.tries, lo |-> lo]
FleetCallOf(ac, g) == [Call(ac.op, IF ac.op = "describe_asgs" THEN "" ELSE g, "", ac.ok, ac.a, ac.b, ac.s) EXCEPT !.r = ac.r]
FleetNames(lo, n) == {"f" \o ToString(k) : k \in lo..(lo + n - 1)}

\* scale_up.go ScaleUp(N) on state r (record with calls/api/asg/pc/ctl...), tainted sequence ts
ScaleUpOutcome(gs0, g, dry, now, F, N, ts, att, fleetLo, r) ==
  LET created == CreatedOf(gs0)
      cands == SeqToSet(ts)
      \* scaleUpUntaint
      doUnt == Len(ts) > 0
      fails == IF dry THEN {} ELSE UntaintFails(F, r.api, att)
      selOK == IF doUnt THEN SelectOKSeq(created, -1, cands, N, fails, att) ELSE att = <<>>
      failAll == IF dry THEN {} ELSE {n \in cands : GetFails(F, r.api, n) \/ (r.api[n].taint.has /\ UpdFails(F, n))}
      r0 == IF doUnt THEN [r EXCEPT !.sel = [dir |-> -1, cands |-> cands, k |-> N, fails |-> failAll]] ELSE r
      u == IF ~doUnt THEN [r0 EXCEPT !.succ = 0]
           ELSE IF dry THEN [r0 EXCEPT !.succ = Len(att),
                                       !.ctl = [@ EXCEPT !.tracker = Filter(@, LAMBDA x : x \notin SeqToSet(att))]]
           ELSE UntaintLoop(att, 1, g, F, [r0 EXCEPT !.succ = 0])
      rest == N - u.succ
      \* scaleUpCloudProviderNodeGroup: clamp against the cached target size (fix F1: and max_nodes)
      bound == Min2(u.pc.max, u.ctl.maxEff)
      add == AddClamp(u.pc.desired, rest, bound)
      \* a slow cloud call (fault "slow"): one tick passes before the cloud answers; the request is accepted, and the cool-down
      \* starts, when it answers
      sl == IF Failing(F, "slow", g) /\ ~gs0.cfg.fleet THEN 1 ELSE 0     \* (plain SetDesiredCapacity groups; fleet waits are not modelled as ticks)
  IN
  IF rest <= 0 THEN [u EXCEPT !.valid = @ /\ selOK, !.result = u.succ]
  ELSE IF add <= 0 THEN [u EXCEPT !.valid = @ /\ selOK, !.result = 0, !.uperr = TRUE]
  ELSE IF dry THEN       \* no cloud call, but the lock is armed all the same
       [u EXCEPT !.valid = @ /\ selOK, !.result = u.succ + add,
                 !.ctl = [@ EXCEPT !.isLocked = TRUE, !.requested = add, !.lockAt = now]]
  ELSE \* aws.go IncreaseSize: guards on the cache, then SetDesiredCapacity(cached desired + add) or the fleet path
       IF u.pc.desired + add > u.pc.max THEN [u EXCEPT !.valid = @ /\ selOK, !.result = 0, !.uperr = TRUE]
       ELSE IF gs0.cfg.fleet THEN
            LET fr == IncResult(FleetCase(u, g, F, add, fleetLo), FleetPlan(F, g))
                fcalls == [i \in 1..Len(fr.calls) |-> FleetCallOf(fr.calls[i], g)]
                u2 == [u EXCEPT !.valid = @ /\ selOK, !.calls = @ \o fcalls, !.tries = fr.tries, !.exit = fr.exit,
                                !.asg = [@ EXCEPT !.desired = @ + fr.attached, !.members = @ \cup FleetNames(fleetLo, fr.attached)]]
            IN IF fr.ret = "nil"
                 THEN [u2 EXCEPT !.result = u.succ + add, !.accepted = now + sl, !.elapsed = sl,
                                 !.ctl = [@ EXCEPT !.isLocked = TRUE, !.requested = add, !.lockAt = now + sl]]
                 ELSE [u2 EXCEPT !.result = 0, !.uperr = TRUE]
       ELSE LET target == u.pc.desired + add
                injected == Failing(F, "set_desired", g)
                bounds == target > u.asg.max \/ target < u.asg.min
                ok == ~injected /\ ~bounds
                c == Call("set_desired", g, g, ok, target, u.asg.desired, IF injected THEN "injected" ELSE IF bounds THEN "bounds" ELSE "")
            IN IF ok THEN [u EXCEPT !.valid = @ /\ selOK, !.result = u.succ + add, !.calls = Append(@, c),
                                    !.asg = [@ EXCEPT !.desired = target],
                                    !.accepted = now + sl, !.elapsed = sl,
                                    !.ctl = [@ EXCEPT !.isLocked = TRUE, !.requested = add, !.lockAt = now + sl]]
               ELSE [u EXCEPT !.valid = @ /\ selOK, !.result = 0, !.uperr = TRUE, !.calls = Append(@, c)]

\* scale_down.go TryRemoveTaintedNodes candidates, in lister order
GraceCands(gs, dry, now, ts) ==
  IF dry THEN <<>>
  ELSE Filter(ts, LAMBDA n : LET v == ViewOf(gs)[n] IN
                     /\ ~v.nodel
                     /\ v.taint.has /\ v.taint.ok
                     /\ now - v.taint.at > gs.cfg.soft
                     /\ (EmptyNode(gs, n) \/ now - v.taint.at > gs.cfg.hard))

ForceCands(gs, dry, fs) == IF dry THEN <<>> ELSE Filter(fs, LAMBDA n : EmptyNode(gs, n))

GroupScan(gs, g, now, dryAll, F, obs) ==
  LET dry == DryOf(gs, dryAll)
      view == ViewOf(gs)
      \* RunOnce: controller.go:526-532 auto-discovery of min/max from the (just refreshed) provider cache
      minEff == IF gs.cfg.auto THEN gs.pc.min ELSE gs.ctl.minEff
      maxEff == IF gs.cfg.auto THEN gs.pc.max ELSE gs.ctl.maxEff
      ctl0 == [gs.ctl EXCEPT !.minEff = minEff, !.maxEff = maxEff]
      base == [calls |-> <<>>, api |-> gs.api, asg |-> gs.asg, pc |-> gs.pc, ctl |-> ctl0, accepted |-> gs.accepted, tries |-> gs.tries, exit |-> FALSE,
               pids |-> [n \in DOMAIN view |-> view[n].pid],
               terminated |-> {}, deleted |-> {}, tainted |-> {}, untainted |-> {}, succ |-> 0, result |-> 0,
               ret |-> "nil", ok |-> TRUE, valid |-> TRUE, uperr |-> FALSE, elapsed |-> 0,
               lookReq |-> {}, lookMay |-> {}, fatal |-> FALSE, panics |-> FALSE, branch |-> "", nd |-> 0, ndSet |-> {0},
               sel |-> [dir |-> 0, cands |-> {}, k |-> 0, fails |-> {}],
               counts |-> [all |-> -1, cord |-> -1, unt |-> -1, taint |-> -1, force |-> -1, pods |-> -1]]
      Done(r, delta, ret, branch) ==
        [r EXCEPT !.ctl = [@ EXCEPT !.delta = delta], !.ret = ret, !.branch = branch]
      lp == Call("list_pods", g, "", ~Failing(F, "list_pods", g), 0, 0, "")
      ln == Call("list_nodes", g, "", ~Failing(F, "list_nodes", g), 0, 0, "")
  IN
  \* :211-222
  IF ~lp.ok THEN Done([base EXCEPT !.calls = <<lp>>], 0, "error", "list_pods_failed")
  ELSE IF ~ln.ok THEN Done([base EXCEPT !.calls = <<lp, ln>>], 0, "error", "list_nodes_failed")
  ELSE
  LET r1 == [base EXCEPT !.calls = <<lp, ln>>,
                         \* :242-247 the classification is exported as gauges
                         !.counts = [all |-> Len(gs.order), cord |-> Len(Cordoned(gs, dry)), unt |-> Len(UntaintedS(gs, dry)),
                                     taint |-> Len(TaintedS(gs, dry)), force |-> Len(ForceT(gs, dry)), pods |-> Len(gs.pods)],
                         \* :225-228 cache the size of the first listed node
                         !.ctl = IF Len(gs.order) > 0
                                 THEN [@ EXCEPT !.capCpu = view[gs.order[1]].cpu, !.capMem = view[gs.order[1]].mem]
                                 ELSE @]
      unt == UntaintedS(gs, dry)
      ts == TaintedS(gs, dry)
      fs == ForceT(gs, dry)
      nAll == Len(gs.order)
      nUnt == Len(unt)
      npods == Len(gs.pods)
      rc == ReqCpu(gs)
      rm == ReqMem(gs)
      cc == CapCpu(gs, unt)
      cm == CapMem(gs, unt)
  IN
  \* :252-274
  IF nAll = 0 /\ npods = 0 THEN Done(r1, 0, "nil", "empty")
  ELSE IF nAll < minEff THEN Done(r1, 0, "error", "too_few_nodes")
  ELSE IF nAll > maxEff THEN Done(r1, 0, "error", "too_many_nodes")
  ELSE
  LET locked == now - r1.ctl.lockAt < gs.cfg.cool          \* scale_lock.go locked()
      r2 == [r1 EXCEPT !.ctl = [@ EXCEPT !.isLocked = FALSE, !.requested = 0]]     \* unlock(), a side effect of locked() = false
  IN
  \* :308-322 below-minimum recovery; fix F2: not while the cool-down lock is held
  IF nUnt < minEff /\ ~locked
    THEN LET u == ScaleUpOutcome(gs, g, dry, now, F, minEff - nUnt, ts, obs.att, obs.fleetLo, r2)
         IN IF u.exit THEN [u EXCEPT !.branch = "exit", !.ret = "error"]      \* the process exits inside the provider: nothing is remembered
            ELSE Done(u, u.result, IF u.uperr THEN "error" ELSE "nil", "below_min")
  ELSE
  \* :327-336 util.go calcPercentUsage
  LET allZero == rc = 0 /\ rm = 0 /\ cc = 0 /\ cm = 0 /\ nUnt = 0
      fromZero == ~allZero /\ (cc = 0 \/ cm = 0) /\ nUnt = 0
      divZero == ~allZero /\ (cc = 0 \/ cm = 0) /\ nUnt # 0
  IN
  IF divZero THEN Done(r1, 0, "error", "div_zero")
  \* :350-356 don't do anything else until we're unlocked again
  ELSE IF locked THEN Done([r1 EXCEPT !.valid = @ /\ obs.att = <<>>], r1.ctl.requested, "nil", "locked")
  ELSE
  LET \* :174-206 registration-lag look-ups after a scale-out (read only)
      lookOn == gs.ctl.delta > 0
      lookReq == IF lookOn THEN {n \in SeqToSet(gs.order) : view[n].created > gs.ctl.lastOut /\ view[n].pid = "ok"} ELSE {}
      lookMay == IF lookOn THEN {n \in SeqToSet(gs.order) : view[n].created >= gs.ctl.lastOut /\ view[n].pid = "ok"} ELSE {}
      \* :361-390 band
      \* from zero the cached node size is the one stored by this very scan (r1.ctl), or an older one when no node is listed
      admitted2 == IF allZero THEN BandDeltas(0, 0, 1, 1, 0, gs.cfg)        \* 0 %
                   ELSE IF fromZero
                   THEN (IF r1.ctl.capCpu = 0 \/ r1.ctl.capMem = 0 THEN {1}
                         ELSE MaxPairs(NeedZero(rc, r1.ctl.capCpu, gs.cfg.up), NeedZero(rm, r1.ctl.capMem, gs.cfg.up)))
                   ELSE BandDeltas(rc, rm, cc, cm, nUnt, gs.cfg)
      raw == obs.nd
      \* :392-401 overrides
      starve == /\ gs.cfg.starve /\ nUnt < maxEff
                /\ \/ (MaxPendCpu(gs) > 0 /\ MaxPendCpu(gs) > MaxFreeCpu(gs, unt))
                   \/ (MaxPendMem(gs) > 0 /\ MaxPendMem(gs) > MaxFreeMem(gs, unt))
      aged == /\ gs.cfg.maxAge > 0 /\ nUnt = minEff /\ nUnt # 0 /\ Len(ts) = 0
              /\ \E n \in SeqToSet(unt) : now - view[n].created > gs.cfg.maxAge
      ndSet == IF starve \/ aged THEN {Max2(a, 1) : a \in admitted2} ELSE admitted2
      ndOK(x) == x \in ndSet
      \* when the scan ended with the fatal not-in-group error the decision is not observable (the remembered delta
      \* is 0); every non-positive decision leads to the same outcome, a positive one never reaches the grace reaper
      nd == IF obs.ndAny THEN (IF \E x \in ndSet : x <= 0 THEN CHOOSE x \in ndSet : x <= 0 ELSE CHOOSE x \in ndSet : TRUE)
            ELSE raw
      r3 == [r2 EXCEPT !.lookReq = lookReq, !.lookMay = lookMay, !.valid = ndOK(nd), !.nd = nd, !.ndSet = ndSet]
      \* :413-421 force reaper; its error is only logged
      fr == DeleteBatch(ForceCands(gs, dry, fs), g, F, r3)
      r4 == [fr EXCEPT !.ret = "nil", !.ok = TRUE]
  IN
  \* fix F7: the not-in-group error stops the controller from this path as well
  IF fr.ret = "notingroup" THEN [Done(fr, 0, "notingroup", "force_fatal") EXCEPT !.fatal = TRUE]
  ELSE IF nd < 0 THEN
       \* scale_down.go ScaleDown: grace reaper, then taint oldest
       LET gr == DeleteBatch(GraceCands(gs, dry, now, ts), g, F, r4)
       IN IF gr.ret = "notingroup" THEN [Done(gr, 0, "notingroup", "down_fatal") EXCEPT !.fatal = TRUE]
          ELSE LET r5 == [gr EXCEPT !.ret = "nil", !.ok = TRUE]
                   k0 == -nd
                   k == TaintCount(nUnt, k0, minEff)
                   created == CreatedOf(gs)
                   failAll == IF dry THEN {} ELSE {n \in SeqToSet(unt) : GetFails(F, r5.api, n) \/ (~r5.api[n].taint.has /\ UpdFails(F, n))}
                   r6 == [r5 EXCEPT !.sel = [dir |-> 1, cands |-> SeqToSet(unt), k |-> k, fails |-> failAll]]
               IN IF k < 0 THEN Done([r5 EXCEPT !.valid = @ /\ obs.att = <<>>], nd, "nil", "down_abort")
                  ELSE IF dry
                    THEN LET selOK == SelectOKSeq(created, 1, SeqToSet(unt), k, {}, obs.att)
                         IN Done([r6 EXCEPT !.valid = @ /\ selOK, !.ctl = [@ EXCEPT !.tracker = @ \o obs.att]], nd, "nil", "down")
                    ELSE LET selOK == SelectOKSeq(created, 1, SeqToSet(unt), k, TaintFails(F, r6.api, obs.att), obs.att)
                             t == TaintLoop(obs.att, 1, g, F, now, EffectOf(gs), [r6 EXCEPT !.succ = 0])
                         IN Done([t EXCEPT !.valid = @ /\ selOK], nd, "nil", "down")
  ELSE IF nd > 0 THEN
       LET u == ScaleUpOutcome(gs, g, dry, now, F, nd, ts, obs.att, obs.fleetLo, r4)
       IN IF u.exit THEN [u EXCEPT !.branch = "exit", !.ret = "error"]
          ELSE Done([u EXCEPT !.ctl = [@ EXCEPT !.lastOut = now + u.elapsed]], nd, "nil", "up")
  ELSE \* nothing to scale: reap only
       LET gr == DeleteBatch(GraceCands(gs, dry, now, ts), g, F, r4)
       IN IF gr.ret = "notingroup" THEN [Done(gr, 0, "notingroup", "idle_fatal") EXCEPT !.fatal = TRUE]
          ELSE Done([gr EXCEPT !.valid = @ /\ obs.att = <<>>], 0, "nil", "idle")

\* the post-state group record
PostGroup(gs, r) == [gs EXCEPT !.api = r.api, !.asg = r.asg, !.pc = r.pc, !.ctl = r.ctl, !.accepted = r.accepted, !.tries = r.tries]

-----------------------------------------------------------------------------
(* RunOnce: refresh, then the groups in configuration order (controller.go:501-552).             *)
(*   W: world record [now, dryAll, alive, gorder, groups]                                         *)
(*   obs: [g \in groups |-> [att, nd]]                                                            *)

RefreshCalls(F) ==
  IF Failing(F, "describe_asgs", "all")
    THEN <<Call("describe_asgs", "", "", FALSE, 0, 0, ""), Call("describe_asgs", "", "", FALSE, 0, 0, ""), Call("describe_asgs", "", "", FALSE, 0, 0, "")>>
  ELSE IF Failing(F, "describe_asgs", "#1")
    THEN <<Call("describe_asgs", "", "", FALSE, 0, 0, ""), Call("describe_asgs", "", "", TRUE, 0, 0, "")>>
  ELSE <<Call("describe_asgs", "", "", TRUE, 0, 0, "")>>

RefreshOK(F) == ~Failing(F, "describe_asgs", "all")

Refreshed(W, F) ==
  \* (the provider keeps the listed instances whatever their lifecycle state: the cache has no notion of "terminating")
  IF RefreshOK(F) THEN [W EXCEPT !.groups = [g \in DOMAIN W.groups |-> [W.groups[g] EXCEPT !.pc = [W.groups[g].asg EXCEPT !.terminating = {}]]]]
  ELSE W

RECURSIVE GroupLoop(_, _, _, _, _)
\* acc: [W, calls, ret, valid, res (per-group results)]
GroupLoop(i, F, obs, acc, order) ==
  IF i > Len(order) THEN acc
  ELSE LET g == order[i]
           r == GroupScan(acc.W.groups[g], g, acc.W.now, acc.W.dryAll, F, obs[g])
           W2 == [acc.W EXCEPT !.groups = [@ EXCEPT ![g] = PostGroup(acc.W.groups[g], r)], !.now = @ + r.elapsed]
           acc2 == [acc EXCEPT !.W = W2, !.calls = @ \o r.calls, !.valid = @ /\ r.valid, !.res = [@ EXCEPT ![g] = r]]
       IN IF r.exit THEN [acc2 EXCEPT !.ret = "error", !.exit = TRUE, !.W = [W2 EXCEPT !.alive = FALSE]]
          ELSE IF r.fatal THEN [acc2 EXCEPT !.ret = "notingroup", !.W = [W2 EXCEPT !.alive = FALSE]]
          ELSE GroupLoop(i + 1, F, obs, acc2, order)

\* ---- crash points: the process dies just before its k-th write call of the scan (fault [op |-> "crash", t |-> "#k"]).
\* What has happened is exactly the prefix of the calls; controller memory is gone with the process.
CrashAt(F) == IF \E f \in F : f.op = "crash" THEN (CHOOSE k \in 1..20 : [op |-> "crash", t |-> "#" \o ToString(k)] \in F) ELSE 0
WriteIdx(calls) == {i \in 1..Len(calls) : IsWrite(calls[i])}
KthWrite(calls, k) == IF Cardinality(WriteIdx(calls)) < k THEN 0
                      ELSE CHOOSE i \in WriteIdx(calls) : Cardinality({j \in WriteIdx(calls) : j < i}) = k - 1
RECURSIVE ApplyCalls(_, _, _)
ApplyCalls(W, calls, i) ==
  IF i > Len(calls) THEN W
  ELSE LET c == calls[i]  g == c.g IN
       IF ~c.ok \/ g \notin DOMAIN W.groups THEN ApplyCalls(W, calls, i + 1)
       ELSE IF c.op = "update" /\ c.n \in DOMAIN W.groups[g].api
         THEN ApplyCalls([W EXCEPT !.groups[g].api[c.n].taint = IF c.s = "untaint:" THEN [has |-> FALSE, ok |-> FALSE, at |-> 0] ELSE [has |-> TRUE, ok |-> TRUE, at |-> c.a]], calls, i + 1)
       ELSE IF c.op = "delete" /\ c.n \in DOMAIN W.groups[g].api
         THEN ApplyCalls([W EXCEPT !.groups[g].api = [m \in (DOMAIN @) \ {c.n} |-> @[m]]], calls, i + 1)
       ELSE IF c.op = "terminate"
         THEN ApplyCalls([W EXCEPT !.groups[g].asg = IF @.linger THEN [@ EXCEPT !.desired = @ - 1, !.terminating = @ \cup {c.n}]
                                                     ELSE [@ EXCEPT !.desired = @ - 1, !.members = @ \ {c.n}],
                                   !.groups[g].pc = [@ EXCEPT !.desired = @ - 1, !.members = @ \ {c.n}]], calls, i + 1)
       ELSE IF c.op = "set_desired" THEN ApplyCalls([W EXCEPT !.groups[g].asg.desired = c.a], calls, i + 1)
       ELSE ApplyCalls(W, calls, i + 1)

\* the outcome of RunOnce cut at the crash point (r: the outcome had the process lived)
CrashCut(W, F, r) ==
  LET k == KthWrite(r.calls, CrashAt(F)) IN
  IF CrashAt(F) = 0 \/ k = 0 THEN [r EXCEPT !.crash = FALSE]
  ELSE LET pre == SubSeq(r.calls, 1, k - 1) IN
       [r EXCEPT !.crash = TRUE, !.calls = pre, !.ret = "error", !.exit = FALSE,
                 !.W = [ApplyCalls(Refreshed(W, F), pre, 1) EXCEPT !.alive = FALSE]]

NoResult == [branch |-> "not_scanned", valid |-> TRUE, calls |-> <<>>, lookReq |-> {}, lookMay |-> {}, nd |-> 0, ndSet |-> {0},
             counts |-> [all |-> -1, cord |-> -1, unt |-> -1, taint |-> -1, force |-> -1, pods |-> -1],
             sel |-> [dir |-> 0, cands |-> {}, k |-> 0, fails |-> {}],
             terminated |-> {}, deleted |-> {}, tainted |-> {}, untainted |-> {}, ret |-> "nil", fatal |-> FALSE, exit |-> FALSE]

RunOnce(W, F, obs) ==
  LET W1 == Refreshed(W, F)
      acc0 == [W |-> W1, calls |-> RefreshCalls(F), ret |-> "nil", valid |-> TRUE, exit |-> FALSE, crash |-> FALSE,
               res |-> [g \in DOMAIN W.groups |-> NoResult]]
  IN CrashCut(W, F, [GroupLoop(1, F, obs, acc0, W.gorder) EXCEPT !.crash = FALSE])

=============================================================================
