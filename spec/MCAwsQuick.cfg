CONSTANTS
  FleetSizes <- mc_FleetSizesQuick
  Tries0Set <- mc_Tries0Set
INIT AInit
NEXT ANext
INVARIANTS InvC17 InvC18 InvRefines InvExit EmitDone
CHECK_DEADLOCK FALSE
