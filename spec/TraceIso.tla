------------------------------ MODULE TraceIso ------------------------------
(* C12, two-run form: a history and its twin that lacks every environment event of one group H.  For every other group the *)
(* calls made in each scan must be the same in both runs (until a fatal stop occurs in either).                            *)
EXTENDS Integers, Sequences, FiniteSets, Json, TLC
CONSTANTS TraceFile
Trace == ndJsonDeserialize(TraceFile)
VARIABLE l

Of(cs, g) == SelectSeq(cs, LAMBDA c : c.g = g \/ (c.op = "set_desired" /\ c.n = g))
CheckLine(i) ==
  LET o == Trace[i]
      others == {o.gorder[k] : k \in 1..Len(o.gorder)} \ {o.h}
      comparable == ~o.fatalSeen /\ o.retA = "nil" /\ o.retB = "nil"
      viol == IF ~comparable THEN {} ELSE {<<"C12", "other-group-actions-changed", g, "">> : g \in {x \in others : Of(o.callsA, x) # Of(o.callsB, x)}}
      facts == (IF comparable /\ o.dropped > 0 THEN {"C12:twin-compared"} ELSE {})
               \cup (IF comparable /\ o.dropped > 0 /\ Of(o.callsA, o.h) # Of(o.callsB, o.h) THEN {"C12:twin-changed-group-differs"} ELSE {})
               \cup (IF comparable /\ \E g \in others : \E k \in 1..Len(o.callsA) : o.callsA[k].g = g /\ o.callsA[k].op \in {"update", "delete", "terminate", "set_desired"} THEN {"C12:twin-other-group-acts"} ELSE {})
  IN /\ IF viol = {} THEN TRUE ELSE PrintT(ToJson([kind |-> "VIOLATIONS", line |-> i, src |-> o.src, id |-> o.id, v |-> viol]))
     /\ PrintT(ToJson([kind |-> "LINE", line |-> i, branches |-> [k \in {"case"} |-> "iso"], facts |-> facts]))

Init == l = 1
Next == l <= Len(Trace) /\ CheckLine(l) /\ l' = l + 1
Done == PrintT(ToJson([kind |-> "DONE", lines |-> Len(Trace), reached |-> TLCGet("stats").diameter - 1]))
=============================================================================
