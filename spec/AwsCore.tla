------------------------------ MODULE AwsCore -------------------------------
(***************************************************************************)
(* One call of the AWS node group: IncreaseSize(d) (SetDesiredCapacity or  *)
(* the CreateFleet path: create -> readiness -> attach batches -> orphan   *)
(* termination -> consecutive-failure counter -> process exit) and         *)
(* DeleteNodes(list).  pkg/cloudprovider/aws/aws.go.                       *)
(*                                                                         *)
(*  - big-step functions IncCalls / DelCalls: the exact call sequence for  *)
(*    a case and a fault plan (used to validate recorded traces);          *)
(*  - a small-step specification (variables below) in which every fault    *)
(*    point is a separate nondeterministic choice, model-checked over a    *)
(*    grid of sizes, with C17 / C18 / C19 as invariants of its terminal    *)
(*    states and the refinement check small-step = big-step;               *)
(*  - the property predicates C17ok / C18ok / C19ok over a call history,   *)
(*    shared by the model and by TraceAws.tla.                             *)
(* Fleet instances are numbered; calls carry them as runs <<lo, hi>>.      *)
(***************************************************************************)
EXTENDS Integers, Sequences, FiniteSets, TLC

AttachLimit == 20
TerminateLimit == 1000
MaxTries == 3

Min2(a, b) == IF a < b THEN a ELSE b

\* abstract call: the fields the specification determines
AC(op, ok, a, b, r) == [op |-> op, ok |-> ok, a |-> a, b |-> b, r |-> r, s |-> ""]

RunLen(r) == r[2] - r[1] + 1
RECURSIVE RunsLen(_)
RunsLen(rs) == IF rs = <<>> THEN 0 ELSE RunLen(Head(rs)) + RunsLen(Tail(rs))
RunsSet(rs) == UNION {rs[i][1]..rs[i][2] : i \in 1..Len(rs)}

\* the first n ids of a sequence of runs, and the rest
RECURSIVE TakeRuns(_, _)
TakeRuns(rs, n) == IF n <= 0 \/ rs = <<>> THEN <<>>
                   ELSE IF RunLen(Head(rs)) <= n THEN <<Head(rs)>> \o TakeRuns(Tail(rs), n - RunLen(Head(rs)))
                   ELSE <<<<Head(rs)[1], Head(rs)[1] + n - 1>>>>
RECURSIVE DropRuns(_, _)
DropRuns(rs, n) == IF n <= 0 \/ rs = <<>> THEN rs
                   ELSE IF RunLen(Head(rs)) <= n THEN DropRuns(Tail(rs), n - RunLen(Head(rs)))
                   ELSE <<<<Head(rs)[1] + n, Head(rs)[2]>>>> \o Tail(rs)
RECURSIVE Chunks(_, _)
Chunks(rs, n) == IF rs = <<>> THEN <<>> ELSE <<TakeRuns(rs, n)>> \o Chunks(DropRuns(rs, n), n)

\* attach batches of [lo, hi]: full batches of 20 while more than 20 remain, then the remainder (1..20)
RECURSIVE Batches(_, _)
Batches(lo, hi) == IF hi - lo + 1 > AttachLimit THEN <<<<lo, lo + AttachLimit - 1>>>> \o Batches(lo + AttachLimit, hi) ELSE <<<<lo, hi>>>>

Lo(rs) == rs[1][1]
Hi(rs) == rs[Len(rs)][2]

-----------------------------------------------------------------------------
(* Big step.  c: case [min, max, desired, d, fleet, lifecycle, types, subnets, tagging, never, tries0, lo (first fleet id)]  *)
(* plan: [failDescribe, failCreate, noCapacity, failSet: BOOLEAN, failAttach: 0 or k, failTerm: set of call indices]        *)

FleetCall(c) == [AC("create_fleet", TRUE, c.d, c.d, <<<<1, 1>>, <<c.subnets * (IF c.types = 0 THEN 1 ELSE c.types), 0>>, <<IF c.tagging THEN 1 ELSE 0, 1>>>>)
                 EXCEPT !.s = IF c.lifecycle = "" THEN "on-demand" ELSE c.lifecycle]

TermCalls(rs, plan) ==
  LET ch == Chunks(rs, TerminateLimit) IN
  [i \in 1..Len(ch) |-> AC("terminate_instances", i \notin plan.failTerm, Lo(ch[i]), Hi(ch[i]), ch[i])]

\* result: [calls, ret, exit, attached (number of instances attached), tries]
IncResult(c, plan) ==
  LET none == [calls |-> <<>>, ret |-> "error", exit |-> FALSE, attached |-> 0, tries |-> c.tries0, setTo |-> -1] IN
  IF c.d <= 0 \/ c.desired + c.d > c.max THEN none
  ELSE IF ~c.fleet THEN
       LET v == c.desired + c.d
           ok == ~plan.failSet /\ v <= c.max /\ v >= c.min
       IN [none EXCEPT !.calls = <<AC("set_desired", ok, v, c.desired, <<>>)>>, !.ret = IF ok THEN "nil" ELSE "error", !.setTo = IF ok THEN v ELSE -1]
  ELSE IF plan.failDescribe THEN [none EXCEPT !.calls = <<AC("describe_asgs", FALSE, 0, 0, <<>>)>>]
  ELSE LET d1 == <<AC("describe_asgs", TRUE, 0, 0, <<>>)>> IN
  IF c.subnets = 0 THEN [none EXCEPT !.calls = d1]
  ELSE IF plan.failCreate \/ plan.noCapacity THEN [none EXCEPT !.calls = d1 \o <<[FleetCall(c) EXCEPT !.ok = FALSE]>>]
  ELSE
  LET lo == c.lo   hi == c.lo + c.d - 1
      pre == d1 \o <<FleetCall(c), AC("fleet_ids", TRUE, lo, hi, <<>>)>>
      bs == Batches(lo, hi)
      fail(tcalls) == LET tries == c.tries0 + 1 IN
                      [none EXCEPT !.calls = tcalls, !.tries = tries, !.exit = tries >= MaxTries]
  IN
  IF c.never THEN fail(pre \o TermCalls(<<<<lo, hi>>>>, plan))
  ELSE LET st == <<AC("status", TRUE, c.d, 1, <<>>)>> IN
  IF plan.failAttach = 0 \/ plan.failAttach > Len(bs)
    THEN [none EXCEPT !.calls = pre \o st \o [i \in 1..Len(bs) |-> AC("attach", TRUE, bs[i][1], bs[i][2], <<bs[i]>>)],
                      !.ret = "nil", !.attached = c.d, !.tries = 0]
  ELSE LET k == plan.failAttach
           okc == [i \in 1..(k - 1) |-> AC("attach", TRUE, bs[i][1], bs[i][2], <<bs[i]>>)]
           bad == AC("attach", FALSE, bs[k][1], bs[k][2], <<bs[k]>>)
           \* append(remaining, batch...): what is left after the failing batch first, then the failing batch itself
           orphans == IF k = Len(bs) THEN <<bs[k]>> ELSE <<<<bs[k][2] + 1, hi>>, bs[k]>>
           r == fail(pre \o st \o okc \o <<bad>> \o TermCalls(orphans, plan))
       IN [r EXCEPT !.attached = (k - 1) * AttachLimit]

\* DeleteNodes: c.list = sequence of node names; c.members = set of names; failNodes: instances whose termination fails
RECURSIVE DelLoopA(_, _, _, _, _, _, _)
DelLoopA(list, i, members, desired, min, failNodes, acc) ==
  IF i > Len(list) THEN [acc EXCEPT !.ret = "nil"]
  ELSE IF list[i] \notin members THEN [acc EXCEPT !.ret = "notingroup"]
  ELSE IF list[i] \in failNodes \/ desired - 1 < min
       THEN [acc EXCEPT !.ret = "error", !.calls = Append(@, [op |-> "terminate", ok |-> FALSE, n |-> list[i], a |-> 1])]
  ELSE DelLoopA(list, i + 1, members \ {list[i]}, desired - 1, min, failNodes,
                [acc EXCEPT !.calls = Append(@, [op |-> "terminate", ok |-> TRUE, n |-> list[i], a |-> 1])])

DelResult(c, failNodes) ==
  LET acc == [calls |-> <<>>, ret |-> "error"] IN
  IF c.desired <= c.min \/ c.desired - Len(c.list) < c.min THEN acc
  ELSE DelLoopA(c.list, 1, c.members, c.desired, c.min, failNodes, acc)

-----------------------------------------------------------------------------
(* Property predicates over an observed history: calls (abstract calls), ret, exit, post desired *)

OpCalls(calls, op) == SelectSeq(calls, LAMBDA x : x.op = op)
WriteOps == {"set_desired", "create_fleet", "attach", "terminate_instances", "terminate"}
NoWrites(calls) == \A i \in 1..Len(calls) : calls[i].op \notin WriteOps
RECURSIVE CatRuns(_)
CatRuns(cs) == IF cs = <<>> THEN <<>> ELSE Head(cs).r \o CatRuns(Tail(cs))
Disjoint(rs) == \A i, j \in 1..Len(rs) : i # j => (rs[i][2] < rs[j][1] \/ rs[j][2] < rs[i][1])

\* C17 — exactly the delta, within bounds.  Returns the set of violated clause names.
C17bad(c, calls, ret, postDesired) ==
  LET sd == OpCalls(calls, "set_desired")
      cf == OpCalls(calls, "create_fleet")
      at == OpCalls(calls, "attach")
      ids == OpCalls(calls, "fleet_ids")
      lc == IF c.lifecycle = "" THEN "on-demand" ELSE c.lifecycle
  IN (IF (c.d <= 0 \/ c.desired + c.d > c.max) /\ ~(NoWrites(calls) /\ ret = "error") THEN {"rejected-request-wrote-or-succeeded"} ELSE {})
     \cup (IF postDesired < c.desired THEN {"desired-lowered"} ELSE {})
     \cup (IF ~c.fleet /\ ~(Len(cf) = 0 /\ Len(at) = 0) THEN {"fleet-calls-without-launch-template"} ELSE {})
     \cup (IF ~c.fleet /\ c.d > 0 /\ c.desired + c.d <= c.max /\ ~(Len(sd) = 1 /\ sd[1].a = c.desired + c.d) THEN {"set-desired-not-current-plus-delta"} ELSE {})
     \cup (IF c.fleet /\ Len(sd) # 0 THEN {"set-desired-in-fleet-mode"} ELSE {})
     \cup (IF c.fleet /\ Len(cf) > 1 THEN {"several-fleet-requests"} ELSE {})
     \cup (IF c.fleet /\ Len(cf) = 1 /\ ~(cf[1].a = c.d /\ cf[1].b = c.d) THEN {"fleet-not-all-or-nothing-delta"} ELSE {})
     \cup (IF c.fleet /\ Len(cf) = 1 /\ ~(cf[1].r[1] = <<1, 1>> /\ cf[1].r[2][2] = 0 /\ cf[1].s = lc) THEN {"fleet-options"} ELSE {})
     \cup (IF \E i \in 1..Len(at) : RunsLen(at[i].r) > AttachLimit \/ RunsLen(at[i].r) = 0 THEN {"attach-batch-size"} ELSE {})
     \cup (IF ~Disjoint(CatRuns(at)) THEN {"instance-attached-twice"} ELSE {})
     \cup (IF Len(ids) = 1 /\ ~(RunsSet(CatRuns(at)) \subseteq ids[1].a..ids[1].b) THEN {"attached-foreign-instance"} ELSE {})
     \cup (IF c.fleet /\ ret = "nil" /\ ~(Len(ids) = 1 /\ RunsSet(CatRuns(SelectSeq(at, LAMBDA x : x.ok))) = ids[1].a..ids[1].b /\ ids[1].b - ids[1].a + 1 = c.d)
             THEN {"success-without-attaching-every-instance"} ELSE {})

\* C18 — fleet scale-up never leaks instances
C18bad(c, calls, ret) ==
  LET at == OpCalls(calls, "attach")
      ti == OpCalls(calls, "terminate_instances")
      ids == OpCalls(calls, "fleet_ids")
      acquired == IF Len(ids) = 1 THEN ids[1].a..ids[1].b ELSE {}
      attached == RunsSet(CatRuns(SelectSeq(at, LAMBDA x : x.ok)))
      submitted == RunsSet(CatRuns(ti))
      stepFailed == (Len(ids) = 1 /\ attached # acquired) \/ (\E i \in 1..Len(calls) : calls[i].op \in {"create_fleet", "describe_asgs", "attach"} /\ ~calls[i].ok)
  IN (IF attached \cap submitted # {} THEN {"attached-and-terminated"} ELSE {})
     \cup (IF (attached \cup submitted) # acquired THEN {IF acquired \ (attached \cup submitted) # {} THEN "leaked-instance" ELSE "touched-foreign-instance"} ELSE {})
     \cup (IF \E i \in 1..Len(ti) : RunsLen(ti[i].r) > TerminateLimit THEN {"terminate-batch-above-1000"} ELSE {})
     \cup (IF stepFailed /\ ret = "nil" THEN {"failure-not-reported"} ELSE {})
     \cup (IF ~stepFailed /\ c.fleet /\ Len(ids) = 1 /\ ret # "nil" THEN {"success-reported-as-failure"} ELSE {})

\* C19 — provider level: the right instances, with decrement, never below the minimum, all-or-nothing guard, not-in-group stops
C19bad(c, calls, ret) ==
  LET tm == OpCalls(calls, "terminate")
      okn == [i \in 1..Len(tm) |-> tm[i].n]
      firstForeign == IF \E i \in 1..Len(c.list) : c.list[i] \notin c.members THEN CHOOSE i \in 1..Len(c.list) : c.list[i] \notin c.members /\ \A j \in 1..(i - 1) : c.list[j] \in c.members ELSE 0
      refused == c.desired <= c.min \/ c.desired - Len(c.list) < c.min
  IN (IF \E i \in 1..Len(tm) : tm[i].a # 1 THEN {"terminate-without-decrement"} ELSE {})
     \cup (IF \E i \in 1..Len(tm) : tm[i].n \notin c.members \/ ~\E j \in 1..Len(c.list) : c.list[j] = tm[i].n THEN {"terminated-instance-not-of-a-given-member-node"} ELSE {})
     \cup (IF ~(\A i \in 1..Len(tm) : i <= Len(c.list) /\ tm[i].n = c.list[i]) THEN {"terminate-order-or-duplicates"} ELSE {})
     \cup (IF Len(SelectSeq(tm, LAMBDA x : x.ok)) > (IF c.desired - c.min > 0 THEN c.desired - c.min ELSE 0) THEN {"terminated-more-than-desired-minus-min"} ELSE {})
     \cup (IF refused /\ ~(Len(tm) = 0 /\ ret = "error") THEN {"request-breaching-minimum-not-refused-whole"} ELSE {})
     \cup (IF ~refused /\ firstForeign > 0 /\ ~(\E i \in 1..Len(tm) : ~tm[i].ok) /\ ~(ret = "notingroup" /\ Len(tm) = firstForeign - 1) THEN {"not-in-group-did-not-stop-the-request"} ELSE {})
     \cup (IF ~refused /\ firstForeign = 0 /\ (\A i \in 1..Len(tm) : tm[i].ok) /\ ~(ret = "nil" /\ Len(tm) = Len(c.list)) THEN {"members-not-all-terminated"} ELSE {})
     \cup (IF (\E i \in 1..Len(tm) : ~tm[i].ok) /\ ~(ret = "error" /\ ~tm[Len(tm)].ok /\ \A i \in 1..(Len(tm) - 1) : tm[i].ok) THEN {"failed-terminate-did-not-stop-the-request"} ELSE {})

=============================================================================
