---- MODULE MCAws ----
EXTENDS AwsGroup
mc_FleetSizes == {1, 19, 20, 21, 39, 40, 41, 59, 60, 61, 100, 999, 1000, 1001, 2000, 2001, 2500}
mc_FleetSizesQuick == {1, 19, 20, 21, 40, 41, 61, 1001, 2500}
mc_Tries0Set == {0, 2}
====
