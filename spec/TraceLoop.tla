------------------------------ MODULE TraceLoop -----------------------------
(* Validates records of the real RunForever loop (harness `loop`) against Loop.tla. *)
EXTENDS Loop
CONSTANTS TraceFile
LTrace == ndJsonDeserialize(TraceFile)
VARIABLE l

CheckLine(i) ==
  LET o == LTrace[i]
      k == o.case
      viol == (IF o.panic THEN {<<"C20", "panic-in-loop">>} ELSE {})
              \cup (IF o.ret = "timeout" THEN {<<"C20", "loop-did-not-end">>} ELSE {})
              \cup (IF Eff(k) > 0 /\ Eff(k) <= k.stopAfter /\ o.ret # "notingroup" /\ o.ret # "timeout"
                      THEN {<<"C19", "loop-continued-after-not-in-group">>} ELSE {})
              \cup (IF o.scansAfter # o.scans THEN {<<"C19", "scanned-after-the-loop-ended">>} ELSE {})
              \cup (IF k.fatalAt = 0 /\ o.ret \notin {"stopped", "timeout"}
                      THEN {<<"C20", "loop-ended-without-fatal-condition:" \o o.ret>>} ELSE {})
              \cup (IF o.ret \in {"stopped", "notingroup"} /\ o.bScans # (IF o.ret = "notingroup" THEN o.scans - 1 ELSE o.scans)
                      THEN {<<"C12", "later-group-not-processed-in-loop">>} ELSE {})
      mm == IF Admissible(k, o.scans, o.bScans, o.ret) THEN {} ELSE {"loop-outcome"}
      facts == (IF o.ret = "notingroup" THEN {"loop-fatal-exit"} ELSE {}) \cup (IF o.ret = "stopped" THEN {"loop-stopped"} ELSE {})
               \cup (IF k.failAt > 0 /\ k.failAt <= o.scans THEN {"loop-non-fatal-failure-survived"} ELSE {})
  IN /\ IF mm = {} THEN TRUE ELSE PrintT(ToJson([kind |-> "DIVERGENCE", line |-> i, src |-> o.src, id |-> i, what |-> mm, branches |-> [x \in {} |-> 0]]))
     /\ IF viol = {} THEN TRUE ELSE PrintT(ToJson([kind |-> "VIOLATIONS", line |-> i, src |-> o.src, id |-> i, v |-> {<<x[1], x[2], "", "">> : x \in viol}]))
     /\ PrintT(ToJson([kind |-> "LINE", line |-> i, branches |-> [x \in {"case"} |-> "loop"], facts |-> facts]))

Init == l = 1 /\ c = [kind |-> "none"] /\ n = 0 /\ bscans = 0 /\ state = "trace"
Next == l <= Len(LTrace) /\ CheckLine(l) /\ l' = l + 1 /\ UNCHANGED lvars
Done == PrintT(ToJson([kind |-> "DONE", lines |-> Len(LTrace), reached |-> TLCGet("stats").diameter - 1]))
=============================================================================
