CONSTANTS
  Tier = "quick"
INIT Init
NEXT Next
INVARIANTS GridOK Emit
CHECK_DEADLOCK FALSE
