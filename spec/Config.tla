------------------------------- MODULE Config -------------------------------
(***************************************************************************)
(* C16: what start-up validation must guarantee.  Safe(c) transcribes the  *)
(* statement; Accepts(c) transcribes ValidateNodeGroup (node_group.go) so  *)
(* that TLC can check Accepts => Safe on the model before the real         *)
(* validator is held to Safe on the same grid.                             *)
(***************************************************************************)
EXTENDS Integers, Sequences, FiniteSets

\* durations are given as the strings an operator would write; Dur is time.ParseDuration in seconds, 0 when it does not parse
DurStrings == {"", "0", "-1m", "1m", "5m", "10m", "garbage"}
Parses(s) == s \in {"0", "-1m", "1m", "5m", "10m"}
Dur(s) == CASE s = "1m" -> 60 [] s = "5m" -> 300 [] s = "10m" -> 600 [] s = "-1m" -> -60 [] OTHER -> 0

Effects == {"", "NoSchedule", "NoExecute", "PreferNoSchedule", "Bogus"}
Lifecycles == {"", "on-demand", "spot", "reserved"}

Safe(c) ==
  /\ c.name # "" /\ c.labelKey # "" /\ c.labelValue # "" /\ c.cloudGroup # ""
  /\ 0 < c.lower /\ c.lower < c.upper /\ c.upper < c.up
  /\ 0 <= c.slow /\ c.slow <= c.fast
  /\ Parses(c.soft) /\ Parses(c.hard) /\ 0 < Dur(c.soft) /\ Dur(c.soft) < Dur(c.hard)
  /\ Parses(c.cool) /\ Dur(c.cool) > 0
  /\ ((0 <= c.min /\ c.min < c.max) \/ (c.min = 0 /\ c.max = 0))
  /\ c.effect \in {"", "NoSchedule", "NoExecute", "PreferNoSchedule"}
  /\ c.lifecycle \in {"", "on-demand", "spot"}
  /\ (c.maxAge = "" \/ Parses(c.maxAge))
Unsafe(c) ==   \* which clause fails (for reports)
  (IF c.name = "" \/ c.labelKey = "" \/ c.labelValue = "" \/ c.cloudGroup = "" THEN {"empty-name-label-or-cloud-group"} ELSE {})
  \cup (IF ~(0 < c.lower /\ c.lower < c.upper /\ c.upper < c.up) THEN {"thresholds"} ELSE {})
  \cup (IF ~(0 <= c.slow /\ c.slow <= c.fast) THEN {"removal-rates"} ELSE {})
  \cup (IF ~(Parses(c.soft) /\ Parses(c.hard) /\ 0 < Dur(c.soft) /\ Dur(c.soft) < Dur(c.hard)) THEN {"grace-periods"} ELSE {})
  \cup (IF ~(Parses(c.cool) /\ Dur(c.cool) > 0) THEN {"cool-down"} ELSE {})
  \cup (IF ~((0 <= c.min /\ c.min < c.max) \/ (c.min = 0 /\ c.max = 0)) THEN {"min-max"} ELSE {})
  \cup (IF c.effect \notin {"", "NoSchedule", "NoExecute", "PreferNoSchedule"} THEN {"taint-effect"} ELSE {})
  \cup (IF c.lifecycle \notin {"", "on-demand", "spot"} THEN {"lifecycle"} ELSE {})
  \cup (IF ~(c.maxAge = "" \/ Parses(c.maxAge)) THEN {"max-node-age"} ELSE {})

\* ValidateNodeGroup, rule by rule (with the fix: commit that rejects negative rates)
Accepts(c) ==
  LET auto == c.min = 0 /\ c.max = 0 IN
  /\ c.name # "" /\ c.labelKey # "" /\ c.labelValue # "" /\ c.cloudGroup # ""
  /\ c.upper > 0 /\ c.lower > 0 /\ c.up > 0
  /\ c.lower < c.upper /\ c.upper < c.up
  /\ (auto \/ (c.min < c.max /\ c.max > 0 /\ c.min >= 0))
  /\ c.slow >= 0 /\ c.slow <= c.fast
  /\ c.soft # "" /\ c.hard # "" /\ Dur(c.soft) > 0 /\ Dur(c.hard) > 0 /\ Dur(c.soft) < Dur(c.hard)
  /\ c.cool # "" /\ Dur(c.cool) > 0
  /\ c.effect \in {"", "NoSchedule", "NoExecute", "PreferNoSchedule"}
  /\ c.lifecycle \in {"", "on-demand", "spot"}
  /\ (c.maxAge = "" \/ Parses(c.maxAge))

Baseline == [name |-> "g", labelKey |-> "k", labelValue |-> "v", cloudGroup |-> "asg", lower |-> 30, upper |-> 45, up |-> 70, min |-> 1, max |-> 5,
             slow |-> 1, fast |-> 2, soft |-> "1m", hard |-> "10m", cool |-> "5m", effect |-> "", lifecycle |-> "", maxAge |-> ""]

Thr == {-1, 0, 1, 30, 45, 70, 100, 101}
Rates == {-3, -2, 0, 1, 2, 5}
MM == {-1, 0, 1, 5}
E2 == {"", "x"}

\* option groups: each a set of records overriding some fields of the baseline
GNames == {[name |-> a, labelKey |-> b, labelValue |-> c, cloudGroup |-> d] : a \in E2, b \in E2, c \in E2, d \in E2}
GThr == {[lower |-> a, upper |-> b, up |-> c] : a \in Thr, b \in Thr, c \in Thr}
GMinMax == {[min |-> a, max |-> b] : a \in MM, b \in MM}
GRates == {[slow |-> a, fast |-> b] : a \in Rates, b \in Rates}
GGrace == {[soft |-> a, hard |-> b] : a \in DurStrings, b \in DurStrings}
GCool == {[cool |-> a] : a \in DurStrings}
GEffect == {[effect |-> a] : a \in Effects}
GLife == {[lifecycle |-> a] : a \in Lifecycles}
GAge == {[maxAge |-> a] : a \in DurStrings}
GroupsOf == <<GNames, GThr, GMinMax, GRates, GGrace, GCool, GEffect, GLife, GAge>>

Override(base, o) == [f \in DOMAIN base |-> IF f \in DOMAIN o THEN o[f] ELSE base[f]]
Singles == UNION {{Override(Baseline, o) : o \in GroupsOf[i]} : i \in 1..Len(GroupsOf)}
\* pairs of groups; the threshold group is thinned when paired (its full cube is in Singles)
ThinThr == {o \in GThr : o.lower \in {0, 30, 45} /\ o.upper \in {0, 45, 70} /\ o.up \in {0, 70, 101}}
Gp(i) == IF i = 2 THEN ThinThr ELSE GroupsOf[i]
PairsOf(dummy) == UNION {UNION {{Override(Override(Baseline, a), b) : a \in Gp(i), b \in Gp(j)} : j \in (i + 1)..Len(GroupsOf)} : i \in 1..Len(GroupsOf)}
=============================================================================
