---------------------------- MODULE EscalatorSim ----------------------------
(***************************************************************************)
(* Behaviours for the real code: Escalator.tla with a history variable     *)
(* that records every step as a harness event (environment action with    *)
(* its arguments, or a scan with its fault set).  Run with TLC -simulate;  *)
(* each behaviour of length SimDepth is printed as one JSON schedule,      *)
(* which `harness replay` steps through the real controller.  The          *)
(* schedule carries no outcomes: the verdict comes from the recorded       *)
(* trace, not from having followed the model.                              *)
(***************************************************************************)
EXTENDS Escalator

CONSTANTS SimDepth
VARIABLE hist
svars == <<vars, hist>>

Ev0 == [ev |-> "", g |-> "", n |-> "", a |-> 0, b |-> 0, s |-> "", faults |-> <<>>]
E(ev) == [Ev0 EXCEPT !.ev = ev]
EN(ev, n) == [Ev0 EXCEPT !.ev = ev, !.n = n]

\* which environment step happened, read off the state change
DiffEvent ==
  LET P == DOMAIN api   P2 == DOMAIN api'
      changed == {n \in P \cap P2 : api[n] # api'[n]}
      n1 == CHOOSE n \in changed : TRUE
  IN IF now' # now THEN E("tick")
     ELSE IF snap'.on # snap.on THEN [Ev0 EXCEPT !.ev = IF snap'.on THEN "lag_on" ELSE "lag_off", !.g = G]
     ELSE IF ctl' # ctl /\ api' = api THEN E("restart")
     ELSE IF pend' = pend + 1 THEN [Ev0 EXCEPT !.ev = "pod_arrive", !.g = G, !.a = 1, !.b = 1]
     ELSE IF \E n \in NodeIds : run'[n] = run[n] + 1 THEN [Ev0 EXCEPT !.ev = "pod_schedule", !.g = G, !.n = CHOOSE n \in NodeIds : run'[n] = run[n] + 1]
     ELSE IF \E n \in NodeIds : run'[n] = run[n] - 1 /\ P2 = P THEN [Ev0 EXCEPT !.ev = "pod_finish", !.g = G, !.n = CHOOSE n \in NodeIds : run'[n] = run[n] - 1]
     ELSE IF pend' = pend - 1 THEN [Ev0 EXCEPT !.ev = "pod_finish", !.g = G]
     ELSE IF asg'.members # asg.members /\ P2 = P /\ asg.members \ asg'.members # {} THEN [Ev0 EXCEPT !.ev = IF (CHOOSE n \in asg.members : n \notin asg'.members) \in asg.terminating THEN "instance_gone" ELSE "instance_lost",
                      !.g = G, !.n = CHOOSE n \in asg.members : n \notin asg'.members]
     ELSE IF asg'.members # asg.members /\ P2 = P THEN [Ev0 EXCEPT !.ev = "launch", !.g = G, !.n = CHOOSE n \in asg'.members : n \notin asg.members]
     ELSE IF P2 \ P # {} THEN [Ev0 EXCEPT !.ev = "register", !.g = G, !.n = CHOOSE n \in P2 : n \notin P, !.a = KC, !.b = KM]
     ELSE IF P \ P2 # {} THEN EN("node_gone", CHOOSE n \in P : n \notin P2)
     ELSE IF asg'.desired # asg.desired THEN [Ev0 EXCEPT !.ev = "asg_desired", !.g = G, !.a = asg'.desired]
     ELSE IF asg' # asg THEN [Ev0 EXCEPT !.ev = "asg_edit", !.g = G, !.a = asg'.min, !.b = asg'.max]
     ELSE IF changed = {} THEN E("shuffle")
     ELSE IF api'[n1].cordoned # api[n1].cordoned THEN EN(IF api'[n1].cordoned THEN "cordon" ELSE "uncordon", n1)
     ELSE IF api'[n1].force # api[n1].force THEN EN(IF api'[n1].force THEN "force" ELSE "unforce", n1)
     ELSE IF api'[n1].nodel # api[n1].nodel THEN [EN(IF api'[n1].nodel THEN "annotate" ELSE "unannotate", n1) EXCEPT !.s = "x"]
     ELSE IF ~api'[n1].taint.has THEN EN("ext_untaint", n1)
     ELSE [EN("ext_taint", n1) EXCEPT !.a = api'[n1].taint.at,
                                      !.s = IF ~api'[n1].taint.ok THEN "bad" ELSE IF api'[n1].taint.at > now + 1000 THEN "future"
                                            ELSE IF api'[n1].taint.at < now - 1000 THEN "zero" ELSE "old"]

EnvStep == (Tick \/ PodArrive \/ PodSchedule \/ PodFinish \/ CloudLaunch \/ Register \/ Cordon \/ Uncordon \/ ExtForce \/ ExtUnforce
            \/ Annotate \/ Unannotate \/ ExtTaint \/ ExtUntaint \/ NodeGone \/ AsgEdit \/ DesiredBump \/ InstanceGone \/ InstanceLost \/ LagOn \/ LagOff \/ Restart)
           /\ hist' = Append(hist, DiffEvent)

SimScan ==
  /\ alive
  /\ \E F \in FaultSets : \E r \in Outcomes(World, F) :
       /\ Assert(PropViolations(World, F, r) = {}, <<"PROPERTY VIOLATED ON THE MODEL", PropViolations(World, F, r)>>)
       /\ LET g2 == r.W.groups[G] IN
          /\ api' = g2.api /\ asg' = g2.asg /\ pc' = g2.pc /\ ctl' = g2.ctl /\ accepted' = g2.accepted /\ alive' = r.W.alive
       /\ now' = r.W.now /\ UNCHANGED <<pend, run, snap>>
       /\ hist' = Append(hist, [E("scan") EXCEPT !.faults = SetToSortedSeq(F)])

\* scans are favoured so that behaviours are not mostly environment noise
SimNext == EnvStep \/ SimScan \/ SimScan
SimInit == Init /\ hist = <<>>

InitWorld == [World EXCEPT !.now = 0]
EmitBehaviour == Len(hist) # SimDepth \/ PrintT(ToJson([kind |-> "BEHAVIOUR", events |-> hist]))
EmitInit == Len(hist) > 0 \/ PrintT(ToJson([kind |-> "SIMINIT", state |-> World]))
=============================================================================
