----------------------------- MODULE TraceConfig ----------------------------
(* Validates records of the real decoder + validator (harness `config`) against Config.tla (C16). *)
EXTENDS Config, Json, TLC
CONSTANTS TraceFile
Trace == ndJsonDeserialize(TraceFile)
VARIABLE l

CheckLine(i) ==
  LET o == Trace[i]
      c == o.case
      isKey == c.kind = "key"
      viol == IF isKey THEN (IF ~o.honoured THEN {"documented-key-without-effect:" \o o.key} ELSE {})
              ELSE (IF o.yamlErr \/ o.jsonErr THEN {"decode-error"} ELSE {})
                   \cup (IF ~o.yamlErr /\ ~o.jsonErr /\ ~o.sameDecode THEN {"yaml-and-json-decode-differently"} ELSE {})
                   \cup (IF ~o.yamlErr /\ ~o.jsonErr /\ ~o.asIntended THEN {"decoded-options-lost-a-value"} ELSE {})
                   \cup (IF ~o.yamlErr /\ ~o.jsonErr /\ ~o.pairOK THEN {"options-leak-between-node-groups-of-one-file"} ELSE {})
                   \cup (IF o.accepted # o.acceptedJson THEN {"validation-differs-between-yaml-and-json"} ELSE {})
                   \cup (IF o.accepted /\ ~Safe(c) THEN {"accepted-unsafe:" \o x : x \in Unsafe(c)} ELSE {})
      facts == IF isKey THEN {"C16:documented-key"}
               ELSE (IF o.accepted THEN {"C16:accepted"} ELSE {"C16:rejected"})
                    \cup {"C16:rejected-" \o x : x \in (IF o.accepted THEN {} ELSE Unsafe(c))}
                    \cup (IF c.min = 0 /\ c.max = 0 /\ o.accepted THEN {"C16:auto-discover"} ELSE {})
                    \cup (IF ~o.accepted /\ Safe(c) THEN {"C16:rejected-although-safe"} ELSE {})
  IN /\ IF viol = {} THEN TRUE ELSE PrintT(ToJson([kind |-> "VIOLATIONS", line |-> i, src |-> o.src, id |-> i, v |-> {<<"C16", x, "", "">> : x \in viol}]))
     /\ PrintT(ToJson([kind |-> "LINE", line |-> i, branches |-> [k \in {"case"} |-> c.kind], facts |-> facts]))

Init == l = 1
Next == l <= Len(Trace) /\ CheckLine(l) /\ l' = l + 1
Done == PrintT(ToJson([kind |-> "DONE", lines |-> Len(Trace), reached |-> TLCGet("stats").diameter - 1]))
=============================================================================
