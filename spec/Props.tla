------------------------------- MODULE Props -------------------------------
(* Property predicates C01..C20 over one recorded scan (placeholder, filled in below). *)
EXTENDS EscalatorCore
Violations(line, pre, post, exp) == {}
Facts(line, pre, post, exp) == {}
=============================================================================
