------------------------------- MODULE Props -------------------------------
(***************************************************************************)
(* The listed properties as predicates over ONE recorded scan of the real  *)
(* controller: line (calls, return value, gauges), pre / post (abstract    *)
(* world before / after), exp (what EscalatorCore admits for pre).         *)
(* Each predicate is transcribed from the statement in properties.jsonl,   *)
(* not from the code path; what lies upstream of a property's own concern  *)
(* (classification, the scan's own decision, the real desired capacity) is *)
(* taken from the observation.  Violations(..) returns tuples              *)
(* <<property id, clause key, group, detail>>; Facts(..) returns the       *)
(* non-vacuity facts "<id>:<what>" witnessed by the line.                  *)
(***************************************************************************)
EXTENDS EscalatorCore

Groups(W) == DOMAIN W.groups
SeqFilter(s, P(_)) == SelectSeq(s, P)
CallsOf(line, g) == SelectSeq(line.calls, LAMBDA c : c.g = g)
SetOf(s, P(_), f(_)) == {f(s[i]) : i \in {j \in 1..Len(s) : P(s[j])}}

IsTaintUpd(c) == c.op = "update" /\ (c.s = "taint:NoSchedule" \/ c.s = "taint:NoExecute" \/ c.s = "taint:PreferNoSchedule")
IsUntaintUpd(c) == c.op = "update" /\ c.s = "untaint:"

TermAttempt(line, g) == SetOf(line.calls, LAMBDA c : c.op = "terminate" /\ c.g = g, LAMBDA c : c.n)
TermOK(line, g)      == SetOf(line.calls, LAMBDA c : c.op = "terminate" /\ c.g = g /\ c.ok, LAMBDA c : c.n)
DelAttempt(line, g)  == SetOf(line.calls, LAMBDA c : c.op = "delete" /\ c.g = g, LAMBDA c : c.n)
TaintedOK(line, g)   == SetOf(line.calls, LAMBDA c : c.g = g /\ IsTaintUpd(c) /\ c.ok, LAMBDA c : c.n)
TaintAttempt(line, g) == SetOf(line.calls, LAMBDA c : c.g = g /\ c.op = "update" /\ c.s # "untaint:", LAMBDA c : c.n)
UntaintedOK(line, g) == SetOf(line.calls, LAMBDA c : c.g = g /\ IsUntaintUpd(c) /\ c.ok, LAMBDA c : c.n)
Gets(line, g)        == SetOf(line.calls, LAMBDA c : c.g = g /\ c.op = "get", LAMBDA c : c.n)
SetDesireds(line, g) == SelectSeq(line.calls, LAMBDA c : c.op = "set_desired" /\ (c.g = g \/ c.n = g))
WriteCalls(line, g)  == SelectSeq(line.calls, LAMBDA c : IsWrite(c) /\ (c.g = g \/ (c.op = "set_desired" /\ c.n = g)))

\* the scan's view, by the statement's vocabulary
V(W, g) == ViewOf(W.groups[g])
Listed(W, g) == DOMAIN V(W, g)
UntSet(W, g) == {n \in Listed(W, g) : ~V(W, g)[n].cordoned /\ ~V(W, g)[n].force /\ ~V(W, g)[n].taint.has}
TntSet(W, g) == {n \in Listed(W, g) : ~V(W, g)[n].cordoned /\ ~V(W, g)[n].force /\ V(W, g)[n].taint.has}
Dry(W, g) == W.dryAll \/ W.groups[g].cfg.dry
NoFaults(line) == line.faults = <<>>
RefreshFailed(line) == \E i \in 1..Len(line.faults) : line.faults[i].op = "describe_asgs" /\ line.faults[i].t = "all"
\* the cloud group's bounds as known to this scan
CloudMin(line, W, g) == IF RefreshFailed(line) THEN W.groups[g].pc.min ELSE W.groups[g].asg.min
CloudMax(line, W, g) == IF RefreshFailed(line) THEN W.groups[g].pc.max ELSE W.groups[g].asg.max
MinOf(line, W, g) == IF W.groups[g].cfg.auto THEN CloudMin(line, W, g) ELSE W.groups[g].cfg.min
MaxOf(line, W, g) == IF W.groups[g].cfg.auto THEN CloudMax(line, W, g) ELSE W.groups[g].cfg.max
\* the lock as the controller remembers it (upstream of every property but C02)
CtlLocked(W, g) == W.now - W.groups[g].ctl.lockAt < W.groups[g].cfg.cool
Scanned(line, g) == \E i \in 1..Len(line.calls) : line.calls[i].op = "list_pods" /\ line.calls[i].g = g /\ line.calls[i].ok
ListedOK(line, g) == /\ Scanned(line, g)
                     /\ \E i \in 1..Len(line.calls) : line.calls[i].op = "list_nodes" /\ line.calls[i].g = g /\ line.calls[i].ok
InBounds(line, W, g) == LET n == Cardinality(Listed(W, g)) IN n >= MinOf(line, W, g) /\ n <= MaxOf(line, W, g)

-----------------------------------------------------------------------------
\* C01 — removal only after taint, grace period and drain conditions
Age(W, g, n) == W.now - V(W, g)[n].taint.at
ClauseA(W, g, n) == LET v == V(W, g)[n] IN v.taint.has /\ v.taint.ok /\ Age(W, g, n) > W.groups[g].cfg.soft /\ PodsOn(W.groups[g], n) = 0
ClauseB(W, g, n) == LET v == V(W, g)[n] IN v.taint.has /\ v.taint.ok /\ Age(W, g, n) > W.groups[g].cfg.hard
ClauseC(W, g, n) == V(W, g)[n].force /\ PodsOn(W.groups[g], n) = 0
Removable(W, g, n) == n \in Listed(W, g) /\ ~V(W, g)[n].cordoned /\ (ClauseA(W, g, n) \/ ClauseB(W, g, n) \/ ClauseC(W, g, n))
WhyNot(W, g, n) ==
  IF n \notin Listed(W, g) THEN "not-in-view"
  ELSE LET v == V(W, g)[n] IN
       IF v.cordoned THEN "cordoned"
       ELSE IF v.force THEN "force-busy"
       ELSE IF ~v.taint.has THEN "untainted"
       ELSE IF ~v.taint.ok THEN "unreadable-taint-time"
       ELSE IF Age(W, g, n) <= W.groups[g].cfg.soft THEN "soft-not-passed"
       ELSE "busy-before-hard"
C01v(line, pre) ==
  UNION {{<<"C01", WhyNot(pre, g, n), g, n>> : n \in {m \in TermAttempt(line, g) \cup DelAttempt(line, g) : ~Removable(pre, g, m)}} : g \in Groups(pre)}
\* "because the taint time is stored on the node the rule holds unchanged across controller restarts": the twin run scans an exact
\* clone of the world (same nodes, pods, cloud state, same lock / delta memory) with a controller object built afresh, as after a
\* restart; whatever that controller removes must satisfy the same rule in the same cluster view.  (What the two controllers remove
\* is not required to be equal: the statement bounds removals, it does not make them a function of the view.)
C01r(line, pre) ==
  UNION {IF "twin" \in DOMAIN line /\ g \in DOMAIN line.twin.cloneTerminated
         THEN {<<"C01", "restarted-controller:" \o WhyNot(pre, g, m), g, m>> :
                 m \in {line.twin.cloneTerminated[g][i] : i \in 1..Len(line.twin.cloneTerminated[g])} \ {x \in Listed(pre, g) : Removable(pre, g, x)}}
         ELSE {} : g \in Groups(pre)}
C01f(line, pre) ==
  (IF line.crash THEN {"C01:crashed-mid-scan"} ELSE {}) \cup (IF "twin" \in DOMAIN line /\ NoFaults(line) THEN {"C01:restart-twin"} ELSE {}) \cup
  (IF \E g \in Groups(pre) : Scanned(line, g) /\ Cardinality(Listed(pre, g)) > MaxOf(line, pre, g) /\ \E n \in Listed(pre, g) : V(pre, g)[n].taint.has /\ PodsOn(pre.groups[g], n) > 0
   THEN {"C01:over-max-with-busy-tainted-node"} ELSE {}) \cup
  UNION {LET rem == TermOK(line, g) IN
         {IF ClauseC(pre, g, n) THEN "C01:removed-c" ELSE IF ClauseA(pre, g, n) THEN "C01:removed-a" ELSE "C01:removed-b" : n \in {m \in rem : Removable(pre, g, m)}}
         \cup {"C01:kept-" \o WhyNot(pre, g, n) : n \in {m \in Listed(pre, g) \ rem :
                    ~Removable(pre, g, m) /\ (V(pre, g)[m].taint.has \/ V(pre, g)[m].force \/ V(pre, g)[m].cordoned)}}
        : g \in Groups(pre)}

-----------------------------------------------------------------------------
\* C02 — no scaling activity inside the cool-down; the lock never outlives it
InCoolDown(W, g) == W.now - W.groups[g].accepted < W.groups[g].cfg.cool
C02v(line, pre) ==
  UNION {IF InCoolDown(pre, g) /\ WriteCalls(line, g) # <<>>
           THEN {<<"C02", "write-in-cooldown:" \o WriteCalls(line, g)[1].op, g, WriteCalls(line, g)[1].n>>} ELSE {} : g \in Groups(pre)}
  \cup UNION {IF /\ "twin" \in DOMAIN line /\ NoFaults(line) /\ ~InCoolDown(pre, g)
                 /\ ~pre.groups[g].lag /\ WriteCalls(line, g) = <<>> /\ Gets(line, g) = {}
                 /\ g \in DOMAIN line.twin.writes /\ line.twin.writes[g] > 0
              THEN {<<"C02", "silent-after-cooldown", g, "">>} ELSE {} : g \in Groups(pre)}
C02f(line, pre) ==
  UNION {(IF InCoolDown(pre, g) /\ Scanned(line, g) THEN {"C02:scan-in-cooldown"} ELSE {})
         \cup (IF InCoolDown(pre, g) /\ ListedOK(line, g) /\ InBounds(line, pre, g) /\ Cardinality(UntSet(pre, g)) < MinOf(line, pre, g)
                 THEN {"C02:cooldown-below-min"} ELSE {})
         \cup (IF InCoolDown(pre, g) /\ ListedOK(line, g) /\ \E n \in Listed(pre, g) : Removable(pre, g, n) THEN {"C02:cooldown-removable"} ELSE {})
         \cup (IF ~InCoolDown(pre, g) /\ pre.groups[g].accepted > Never /\ WriteCalls(line, g) # <<>> THEN {"C02:acts-after-cooldown"} ELSE {})
         \cup (IF InCoolDown(pre, g) /\ Scanned(line, g) /\ \E i \in 1..Len(line.calls) : line.calls[i].op = "describe_asgs" /\ ~line.calls[i].ok
                 THEN {"C02:refresh-failed-in-cooldown"} ELSE {})
         \cup (IF "twin" \in DOMAIN line /\ ~InCoolDown(pre, g) /\ g \in DOMAIN line.twin.writes /\ line.twin.writes[g] > 0 THEN {"C02:twin-acts"} ELSE {})
         \cup (IF (\E i \in 1..Len(line.faults) : line.faults[i].op = "slow" /\ line.faults[i].t = g)
                  /\ \E j \in 1..Len(line.calls) : line.calls[j].op \in {"set_desired", "create_fleet"} /\ line.calls[j].g = g /\ line.calls[j].ok
                 THEN {"C02:cloud-call-took-a-tick"} ELSE {})
        : g \in Groups(pre)}

-----------------------------------------------------------------------------
\* C03 — tainting never leaves fewer than min_nodes schedulable nodes
C03v(line, pre, post) ==
  UNION {LET T == TaintedOK(line, g)
             nU == Cardinality(UntSet(pre, g))
             mn == MinOf(line, pre, g)
             need == mn - nU
             U == UntaintedOK(line, g)
             sd == SetDesireds(line, g)
             bound == Min2(MaxOf(line, pre, g), CloudMax(line, pre, g))
             real == IF RefreshFailed(line) THEN pre.groups[g].pc.desired ELSE pre.groups[g].asg.desired
             rest == need - Cardinality(U)
             recovering == /\ ListedOK(line, g) /\ ~Dry(pre, g) /\ ~CtlLocked(pre, g) /\ InBounds(line, pre, g) /\ nU < mn
         IN (IF T # {} /\ nU - Cardinality(T) < mn THEN {<<"C03", "taint-below-min", g, "">>} ELSE {})
            \cup (IF recovering /\ T # {} THEN {<<"C03", "taint-while-below-min", g, "">>} ELSE {})
            \cup (IF recovering /\ NoFaults(line) /\ ~pre.groups[g].lag /\ Cardinality(U) # Min2(need, Cardinality(TntSet(pre, g)))
                    THEN {<<"C03", "recovery-untaint-count", g, "">>} ELSE {})
            \cup (IF recovering /\ NoFaults(line) /\ ~pre.groups[g].lag /\ ~pre.groups[g].cfg.fleet /\ rest > 0 /\ bound - real > 0
                     /\ ~(Len(sd) = 1 /\ sd[1].a - sd[1].b = Min2(rest, bound - real))
                    THEN {<<"C03", "recovery-request", g, "">>} ELSE {})
        : g \in Groups(pre)}
C03f(line, pre) ==
  UNION {LET T == TaintedOK(line, g)
             nU == Cardinality(UntSet(pre, g))
             mn == MinOf(line, pre, g)
         IN (IF T # {} THEN {"C03:tainted"} ELSE {})
            \cup (IF T # {} /\ nU - Cardinality(T) = mn THEN {"C03:tainted-down-to-min"} ELSE {})
            \cup (IF T # {} /\ pre.groups[g].cfg.auto THEN {"C03:tainted-auto"} ELSE {})
            \cup (IF ListedOK(line, g) /\ ~Dry(pre, g) /\ ~CtlLocked(pre, g) /\ InBounds(line, pre, g) /\ nU < mn THEN {"C03:recovery"} ELSE {})
        : g \in Groups(pre)}

-----------------------------------------------------------------------------
\* C04 — cloud target never exceeds min(max_nodes, cloud maximum)
C04v(line, pre, post, exp) ==
  UNION {LET sd == SetDesireds(line, g)
             bound == Min2(MaxOf(line, pre, g), CloudMax(line, pre, g))
             U == UntaintedOK(line, g)
             \* the scan's own demand: its remembered decision minus what it untainted
             N == IF exp.res[g].branch = "below_min" THEN MinOf(line, pre, g) - Cardinality(UntSet(pre, g)) ELSE post.groups[g].ctl.delta
             scalingUp == exp.res[g].branch \in {"up", "below_min"} /\ ~Dry(pre, g) /\ ~pre.groups[g].cfg.fleet
             demand == N - Cardinality(U)
         IN {<<"C04", "target-above-bound", g, "">> : i \in {j \in 1..Len(sd) : sd[j].a > bound}}
            \cup (IF scalingUp /\ NoFaults(line) /\ ~pre.groups[g].lag /\ Len(sd) > 0 /\ demand > 0 /\ sd[1].b + demand > bound /\ bound - sd[1].b > 0 /\ sd[1].a # bound
                    THEN {<<"C04", "clamp-not-on-bound", g, "">>} ELSE {})
            \cup (IF scalingUp /\ Len(sd) > 0 /\ bound - sd[1].b <= 0 THEN {<<"C04", "request-without-headroom", g, "">>} ELSE {})
        : g \in Groups(pre)}
C04f(line, pre) ==
  UNION {LET sd == SetDesireds(line, g)
             bound == Min2(MaxOf(line, pre, g), CloudMax(line, pre, g))
         IN (IF Len(sd) > 0 THEN {"C04:request"} ELSE {})
            \cup (IF Len(sd) > 0 /\ sd[1].a = bound THEN {"C04:request-on-bound"} ELSE {})
            \cup (IF Len(sd) > 0 /\ MaxOf(line, pre, g) < CloudMax(line, pre, g) THEN {"C04:max_nodes-below-cloud-max"} ELSE {})
            \cup (IF Len(sd) > 0 /\ MaxOf(line, pre, g) > CloudMax(line, pre, g) THEN {"C04:max_nodes-above-cloud-max"} ELSE {})
        : g \in Groups(pre)}

-----------------------------------------------------------------------------
\* C06 — direction and taint rate follow the utilisation bands
Bands(W, g) ==   \* the set of bands the exact utilisation lies in (two at an exact threshold)
  LET gs == W.groups[g]
      unt == SetToSortedSeq(UntSet(W, g))
      rc == ReqCpu(gs)  rm == ReqMem(gs)
      cc == CapCpu(gs, unt)  cm == CapMem(gs, unt)
      lt(t) == 100 * rc < t * cc /\ 100 * rm < t * cm
      le(t) == 100 * rc <= t * cc /\ 100 * rm <= t * cm
      gt(t) == 100 * rc > t * cc \/ 100 * rm > t * cm
      ge(t) == 100 * rc >= t * cc \/ 100 * rm >= t * cm
  IN (IF le(gs.cfg.lower) THEN {"fast"} ELSE {}) \cup (IF ge(gs.cfg.lower) /\ le(gs.cfg.upper) THEN {"slow"} ELSE {})
     \cup (IF ge(gs.cfg.upper) /\ le(gs.cfg.up) THEN {"none"} ELSE {}) \cup (IF ge(gs.cfg.up) THEN {"up"} ELSE {})

Starved(line, W, g) ==
  LET gs == W.groups[g]  unt == SetToSortedSeq(UntSet(W, g)) IN
  /\ gs.cfg.starve /\ Cardinality(UntSet(W, g)) < MaxOf(line, W, g)
  /\ \/ (MaxPendCpu(gs) > 0 /\ MaxPendCpu(gs) > MaxFreeCpu(gs, unt))
     \/ (MaxPendMem(gs) > 0 /\ MaxPendMem(gs) > MaxFreeMem(gs, unt))
Aged(line, W, g) ==
  LET gs == W.groups[g] IN
  /\ gs.cfg.maxAge > 0 /\ Cardinality(UntSet(W, g)) = MinOf(line, W, g) /\ UntSet(W, g) # {} /\ TntSet(W, g) = {}
  /\ \E n \in UntSet(W, g) : W.now - V(W, g)[n].created > gs.cfg.maxAge

C06Base(line, pre, g) ==
  /\ ListedOK(line, g) /\ ~Dry(pre, g) /\ ~pre.groups[g].lag /\ ~CtlLocked(pre, g)
  /\ InBounds(line, pre, g) /\ Cardinality(UntSet(pre, g)) >= MinOf(line, pre, g) /\ UntSet(pre, g) # {}
  /\ \A n \in UntSet(pre, g) : V(pre, g)[n].cpu > 0 /\ V(pre, g)[n].mem > 0
  /\ line.ret = "nil" /\ ~line.panic /\ ~line.hang
C06Applies(line, pre, g) == C06Base(line, pre, g) /\ NoFaults(line)
\* scans whose only injected failures are reads / writes / removals of individual listed nodes: "exactly min(rate, untainted - min_nodes)"
\* is still owed whenever that many nodes can be tainted at all (a failed write on one candidate, or a failed removal of an already tainted
\* node, does not excuse tainting fewer)
NodeWriteFaultsOnly(line, pre) ==
  /\ ~NoFaults(line)
  /\ \A i \in 1..Len(line.faults) : line.faults[i].op \in {"get", "update", "conflict", "terminate", "delete"} /\ \E h \in Groups(pre) : line.faults[i].t \in Listed(pre, h)
C06AppliesF(line, pre, g) == C06Base(line, pre, g) /\ NodeWriteFaultsOnly(line, pre) /\ ~line.crash

C06v(line, pre) ==
  UNION {IF ~C06Applies(line, pre, g) /\ ~C06AppliesF(line, pre, g) THEN {} ELSE
         LET gs == pre.groups[g]
             B == Bands(pre, g)
             nT == Cardinality(TaintedOK(line, g))
             nU == Cardinality(UntaintedOK(line, g))
             nS == Len(SetDesireds(line, g))
             room == Cardinality(UntSet(pre, g)) - MinOf(line, pre, g)
             trig == Starved(line, pre, g) \/ Aged(line, pre, g)
             faulty == ~NoFaults(line)
             avail == Cardinality(UntSet(pre, g) \ {line.faults[i].t : i \in {j \in 1..Len(line.faults) : line.faults[j].op \in {"get", "update", "conflict"}}})
             Quota(rate) == IF faulty THEN Min2(Min2(rate, room), avail) ELSE Min2(rate, room)
             okFast == nT = Quota(gs.cfg.fast) /\ nU = 0 /\ nS = 0
             okSlow == nT = Quota(gs.cfg.slow) /\ nU = 0 /\ nS = 0
             okNone == nT = 0 /\ nU = 0 /\ nS = 0
             \* "above the scale-up threshold it only adds capacity": no taint, and the direction is up: at least one node untainted or
             \* requested, unless the cloud target already sits on min(max_nodes, cloud maximum) (fleet requests are not SetDesiredCapacity calls)
             sd == SetDesireds(line, g)
             bound == Min2(MaxOf(line, pre, g), CloudMax(line, pre, g))
             brought == nU + (IF Len(sd) > 0 /\ sd[1].ok THEN sd[1].a - sd[1].b ELSE 0)
             clamped == (Len(sd) > 0 /\ sd[1].a = bound) \/ (Len(sd) = 0 /\ bound - gs.asg.desired <= 0)
             okUp == nT = 0 /\ (faulty \/ gs.cfg.fleet \/ brought >= 1 \/ clamped)
         IN IF trig THEN (IF nT # 0 THEN {<<"C06", "trigger-tainted", g, "">>} ELSE {})
            ELSE IF \/ ("fast" \in B /\ okFast) \/ ("slow" \in B /\ okSlow) \/ ("none" \in B /\ okNone) \/ ("up" \in B /\ okUp) THEN {}
            ELSE {<<"C06", "band-" \o (CHOOSE b \in B : TRUE) \o (IF faulty THEN "-under-node-write-failures" ELSE ""), g, "">>}
        : g \in Groups(pre)}
C06f(line, pre) ==
  UNION {IF ~C06Applies(line, pre, g) THEN {} ELSE
         {"C06:band-" \o b : b \in Bands(pre, g)}
         \cup (IF Cardinality(Bands(pre, g)) > 1 THEN {"C06:on-threshold"} ELSE {})
         \cup (IF Starved(line, pre, g) THEN {"C06:starve"} ELSE {}) \cup (IF Aged(line, pre, g) THEN {"C06:max-age"} ELSE {})
        : g \in Groups(pre)}
  \cup UNION {IF C06AppliesF(line, pre, g) /\ Bands(pre, g) \cap {"fast", "slow"} # {} THEN {"C06:taint-band-with-failing-node-write"} ELSE {} : g \in Groups(pre)}
  \* a memory-bound scale-up decision whose request total is beyond 2^63 / 1e5 milli-bytes (memory unit 1 TiB, `drive -huge`)
  \cup UNION {IF C06Applies(line, pre, g) /\ "memShift" \in DOMAIN line /\ line.memShift = 20 /\ "up" \in Bands(pre, g) /\ ReqMem(pre.groups[g]) >= 84
              THEN {"C06:up-with-memory-total-beyond-int64-headroom"} ELSE {} : g \in Groups(pre)}

-----------------------------------------------------------------------------
\* C05 (controller level) — enough, and at most one more than needed, unless clamped
EqualSizes(W, g) == \A a, b \in Listed(W, g) : V(W, g)[a].cpu = V(W, g)[b].cpu /\ V(W, g)[a].mem = V(W, g)[b].mem
C05Applies(line, pre, g) ==
  /\ C06Applies(line, pre, g) /\ Bands(pre, g) = {"up"} /\ EqualSizes(pre, g) /\ ~pre.groups[g].cfg.fleet
  \* (the scale_on_starve / max_node_age triggers only raise the amount to at least one: above the threshold they change nothing)
C05v(line, pre) ==
  UNION {IF ~C05Applies(line, pre, g) THEN {} ELSE
         LET gs == pre.groups[g]
             n == Cardinality(UntSet(pre, g))
             k == CHOOSE x \in UntSet(pre, g) : TRUE
             Kc == V(pre, g)[k].cpu   Km == V(pre, g)[k].mem
             needTotal == Max2(CeilDiv(100 * ReqCpu(gs), gs.cfg.up * Kc), CeilDiv(100 * ReqMem(gs), gs.cfg.up * Km))
             needMin == needTotal - n
             sd == SetDesireds(line, g)
             bound == Min2(MaxOf(line, pre, g), CloudMax(line, pre, g))
             brought == Cardinality(UntaintedOK(line, g)) + (IF Len(sd) > 0 /\ sd[1].ok THEN sd[1].a - sd[1].b ELSE 0)
             clamped == (Len(sd) > 0 /\ sd[1].a = bound) \/ (Len(sd) = 0 /\ bound - pre.groups[g].asg.desired <= 0)
         IN (IF brought < needMin /\ ~clamped THEN {<<"C05", "insufficient", g, "">>} ELSE {})
            \cup (IF brought > needMin + 1 THEN {<<"C05", "more-than-one-extra", g, "">>} ELSE {})
        : g \in Groups(pre)}
\* from zero: sized with the node size this controller lifetime observed last (the harness keeps that as a ghost, independently of the
\* controller's own cache), or exactly one node when it never observed one
C05ZeroApplies(line, pre, g) ==
  /\ ListedOK(line, g) /\ NoFaults(line) /\ ~Dry(pre, g) /\ ~pre.groups[g].lag /\ ~CtlLocked(pre, g) /\ ~pre.groups[g].cfg.fleet
  /\ InBounds(line, pre, g) /\ UntSet(pre, g) = {} /\ TntSet(pre, g) = {} /\ MinOf(line, pre, g) = 0
  /\ (ReqCpu(pre.groups[g]) > 0 \/ ReqMem(pre.groups[g]) > 0) /\ line.ret = "nil" /\ ~line.panic /\ ~line.hang
  /\ ~Starved(line, pre, g)
  /\ Listed(pre, g) = {}      \* no node is listed at all, so the size used is the remembered one
C05z(line, pre) ==
  UNION {IF ~C05ZeroApplies(line, pre, g) THEN {} ELSE
         LET gs == pre.groups[g]
             sd == SetDesireds(line, g)
             bound == Min2(MaxOf(line, pre, g), CloudMax(line, pre, g))
             brought == IF Len(sd) > 0 /\ sd[1].ok THEN sd[1].a - sd[1].b ELSE 0
             clamped == (Len(sd) > 0 /\ sd[1].a = bound) \/ (Len(sd) = 0 /\ bound - pre.groups[g].asg.desired <= 0)
             need == IF gs.seenCpu = 0 \/ gs.seenMem = 0 THEN 1
                     ELSE Max2(CeilDiv(100 * ReqCpu(gs), gs.cfg.up * gs.seenCpu), CeilDiv(100 * ReqMem(gs), gs.cfg.up * gs.seenMem))
         IN (IF brought < need /\ ~clamped THEN {<<"C05", "from-zero-insufficient-for-last-observed-size", g, "">>} ELSE {})
            \cup (IF brought > need + 1 \/ ((gs.seenCpu = 0 \/ gs.seenMem = 0) /\ brought > 1) THEN {<<"C05", "from-zero-too-many-for-last-observed-size", g, "">>} ELSE {})
        : g \in Groups(pre)}
C05f(line, pre) == UNION {(IF C05Applies(line, pre, g) THEN {"C05:scale-up"} ELSE {})
                                \cup (IF C05Applies(line, pre, g) /\ (Aged(line, pre, g) \/ Starved(line, pre, g)) THEN {"C05:scale-up-with-trigger"} ELSE {}) \cup (IF C05ZeroApplies(line, pre, g) THEN {"C05:ctl-from-zero"} ELSE {}) : g \in Groups(pre)}

-----------------------------------------------------------------------------
\* C07 — tainted nodes are reused (newest first) before capacity is bought
C07Base(line, pre, exp, g) == ListedOK(line, g) /\ ~line.crash /\ ~Dry(pre, g) /\ exp.res[g].branch \in {"up", "below_min"}
C07Applies(line, pre, exp, g) == C07Base(line, pre, exp, g) /\ ~pre.groups[g].lag
C07v(line, pre, post, exp) ==
  UNION {IF ~C07Base(line, pre, exp, g) THEN {} ELSE
         LET N == IF exp.res[g].branch = "below_min" THEN MinOf(line, pre, g) - Cardinality(UntSet(pre, g)) ELSE post.groups[g].ctl.delta
             created == [n \in Listed(pre, g) |-> V(pre, g)[n].created]
             cs == CallsOf(line, g)
             gets == SelectSeq(cs, LAMBDA c : c.op = "get")
             att == [i \in 1..Len(gets) |-> gets[i].n]
             U == UntaintedOK(line, g)
             fails == {att[i] : i \in 1..Len(att)} \ U
             sd == SetDesireds(line, g)
             bound == Min2(MaxOf(line, pre, g), CloudMax(line, pre, g))
             lag == pre.groups[g].lag
             \* behind a stale view a listed "tainted" node may already be clean in the API (re-read, nothing to write: it counts as reused)
             \* or gone from it (the re-read answers not-found: it cannot count as reused)
             clean == IF lag THEN {gets[i].n : i \in {j \in 1..Len(gets) : gets[j].ok /\ gets[j].n \in DOMAIN pre.groups[g].api /\ ~pre.groups[g].api[gets[j].n].taint.has}} ELSE {}
             rest == N - Cardinality(U \cup clean)
             sfx == IF lag THEN "-behind-a-stale-view" ELSE ""
         IN (IF ~lag /\ TntSet(pre, g) # {} /\ ~SelectOKSeq(created, -1, TntSet(pre, g), N, fails, att) THEN {<<"C07", "not-newest-first", g, "">>} ELSE {})
            \cup (IF ~lag /\ TntSet(pre, g) = {} /\ U # {} THEN {<<"C07", "untainted-an-untainted-node", g, "">>} ELSE {})
            \* a scan that needs more nodes reuses its tainted nodes: it does not remove one of them (force-tainted nodes excepted)
            \cup (IF lag THEN {} ELSE {<<"C07", "removed-a-tainted-node-in-a-scale-up-scan", g, n>> : n \in (TermAttempt(line, g) \cup DelAttempt(line, g)) \cap TntSet(pre, g)})
            \cup (IF ~lag /\ Len(sd) > 0 /\ (TntSet(pre, g) \ U) \ fails # {} THEN {<<"C07", "bought-while-tainted-node-left", g, "">>} ELSE {})
            \cup (IF Len(sd) > 0 /\ ~pre.groups[g].cfg.fleet /\ sd[1].a - sd[1].b # Min2(rest, bound - sd[1].b)
                    THEN {<<"C07", "request-not-remainder-on-current" \o sfx, g, "">>} ELSE {})
            \cup (IF Len(sd) = 0 /\ ~pre.groups[g].cfg.fleet /\ NoFaults(line) /\ rest > 0 /\ bound - pre.groups[g].asg.desired + Cardinality(TermOK(line, g)) > 0
                    THEN {<<"C07", "remainder-not-requested" \o sfx, g, "">>} ELSE {})
        : g \in Groups(pre)}
C07f(line, pre, exp) ==
  UNION {IF ~C07Applies(line, pre, exp, g) THEN {} ELSE
         {"C07:scale-up"} \cup (IF UntaintedOK(line, g) # {} THEN {"C07:reused"} ELSE {})
         \cup (IF UntaintedOK(line, g) # {} /\ Len(SetDesireds(line, g)) > 0 THEN {"C07:reused-and-bought"} ELSE {})
         \cup (IF TermOK(line, g) # {} /\ Len(SetDesireds(line, g)) > 0 THEN {"C07:removed-then-bought"} ELSE {})
         \cup (IF \E a, b \in TntSet(pre, g) : a # b /\ V(pre, g)[a].created = V(pre, g)[b].created THEN {"C07:ties"} ELSE {})
        : g \in Groups(pre)}
  \cup UNION {IF C07Base(line, pre, exp, g) /\ pre.groups[g].lag /\ TntSet(pre, g) \ DOMAIN pre.groups[g].api # {} THEN {"C07:stale-view-lists-a-vanished-tainted-node"} ELSE {} : g \in Groups(pre)}

-----------------------------------------------------------------------------
\* C08 — scale-down taints the oldest first
C08v(line, pre) ==
  UNION {IF Dry(pre, g) THEN {} ELSE
         LET T == TaintedOK(line, g)
             failed == (Gets(line, g) \cup TaintAttempt(line, g)) \ T
             left == UntSet(pre, g) \ T
         IN {<<"C08", "older-node-left-untainted", g, u>> : u \in {x \in left \ failed : \E t \in T \cap Listed(pre, g) : V(pre, g)[x].created < V(pre, g)[t].created}}
            \cup {<<"C08", "tainted-a-node-not-untainted", g, t>> : t \in T \ UntSet(pre, g)}
        : g \in Groups(pre)}
C08f(line, pre) ==
  UNION {LET T == TaintedOK(line, g) IN
         (IF T # {} THEN {"C08:tainted"} ELSE {})
         \cup (IF T # {} /\ UntSet(pre, g) \ T # {} THEN {"C08:tainted-some-left"} ELSE {})
         \cup (IF T # {} /\ \E a, b \in UntSet(pre, g) : a # b /\ V(pre, g)[a].created = V(pre, g)[b].created THEN {"C08:ties"} ELSE {})
         \cup (IF T # {} /\ (Gets(line, g) \ T) # {} THEN {"C08:failed-write-skipped"} ELSE {})
        : g \in Groups(pre)}

-----------------------------------------------------------------------------
\* C09 — cordoned nodes are never touched and never counted (outside dry mode)
GaugeSet(line, g) == "gauges" \in DOMAIN line /\ g \in DOMAIN line.gauges /\ line.gauges[g].set
C09v(line, pre) ==
  UNION {IF Dry(pre, g) THEN {} ELSE
         {<<"C09", "touched-cordoned:" \o c.op, g, c.n>> : c \in {line.calls[i] : i \in {j \in 1..Len(line.calls) :
              /\ IsWrite(line.calls[j]) /\ line.calls[j].n \in Listed(pre, g) /\ V(pre, g)[line.calls[j].n].cordoned}}}
         \cup (IF GaugeSet(line, g) /\ line.gauges[g].exact /\ ListedOK(line, g)
                  /\ (line.gauges[g].cpuCap # SumSeq(SetToSortedSeq(UntSet(pre, g)), LAMBDA n : V(pre, g)[n].cpu)
                      \/ line.gauges[g].memCap # SumSeq(SetToSortedSeq(UntSet(pre, g)), LAMBDA n : V(pre, g)[n].mem))
               THEN {<<"C09", "capacity-not-over-untainted-uncordoned", g, "">>} ELSE {})
         \cup (IF "gauges" \in DOMAIN line /\ g \in DOMAIN line.gauges /\ line.gauges[g].nAll >= 0 /\ ListedOK(line, g)
                  /\ (line.gauges[g].nCord # Cardinality({n \in Listed(pre, g) : V(pre, g)[n].cordoned})
                      \/ line.gauges[g].nUnt # Cardinality(UntSet(pre, g)))
               THEN {<<"C09", "cordoned-node-counted-as-schedulable", g, "">>} ELSE {})
        : g \in Groups(pre)}
C09f(line, pre) ==
  UNION {IF Dry(pre, g) \/ ~ListedOK(line, g) THEN {} ELSE
         LET cord == {n \in Listed(pre, g) : V(pre, g)[n].cordoned} IN
         (IF cord # {} THEN {"C09:cordoned-present"} ELSE {})
         \cup (IF \E n \in cord : V(pre, g)[n].taint.has THEN {"C09:cordoned-tainted"} ELSE {})
         \cup (IF \E n \in cord : V(pre, g)[n].force THEN {"C09:cordoned-force"} ELSE {})
         \cup (IF \E n \in cord : V(pre, g)[n].taint.has /\ V(pre, g)[n].taint.ok /\ Age(pre, g, n) > pre.groups[g].cfg.hard THEN {"C09:cordoned-expired"} ELSE {})
         \cup (IF cord # {} /\ GaugeSet(line, g) THEN {"C09:capacity-checked"} ELSE {})
        : g \in Groups(pre)}

-----------------------------------------------------------------------------
\* C10 — the no-delete annotation protects from removal, not from tainting
Protected(W, g, n) == n \in Listed(W, g) /\ V(W, g)[n].nodel /\ ~V(W, g)[n].force
C10v(line, pre, exp) ==
  UNION {{<<"C10", "removed-protected", g, n>> : n \in {m \in TermAttempt(line, g) \cup DelAttempt(line, g) : Protected(pre, g, m)}}
         \cup \* it does not hold back the others: an unprotected node that the same scan removes on a clone of the world WITHOUT the
              \* annotations (twin run, same controller memory) is removed here as well
            (IF "twin" \in DOMAIN line /\ NoFaults(line) /\ ~Dry(pre, g) /\ ListedOK(line, g) /\ g \in DOMAIN line.twin.noAnnotTerminated
                /\ (\E n \in Listed(pre, g) : Protected(pre, g, n))
                /\ \E i \in 1..Len(line.twin.noAnnotTerminated[g]) :
                       LET tn == line.twin.noAnnotTerminated[g][i] IN
                       /\ ~Protected(pre, g, tn) /\ tn \notin TermOK(line, g)
                       /\ ~\E k \in 1..Len(line.twin.cloneTerminated[g]) : line.twin.cloneTerminated[g][k] = tn    \* the exact clone keeps it too: the annotation is what differs
                /\ ~\E fn \in TermAttempt(line, g) : fn \notin TermOK(line, g)      \* (a refused / failed terminate here explains a shorter list)
             THEN {<<"C10", "held-back-others", g, "">>} ELSE {})
        : g \in Groups(pre)}
C10f(line, pre) ==
  UNION {IF Dry(pre, g) \/ ~ListedOK(line, g) THEN {} ELSE
         LET P == {n \in Listed(pre, g) : Protected(pre, g, n)} IN
         (IF P # {} THEN {"C10:protected-present"} ELSE {})
         \cup (IF \E n \in P : ~V(pre, g)[n].cordoned /\ (ClauseA(pre, g, n) \/ ClauseB(pre, g, n)) THEN {"C10:protected-expired-kept"} ELSE {})
         \cup (IF P # {} /\ TermOK(line, g) # {} THEN {"C10:others-removed"} ELSE {})
         \cup (IF P # {} /\ "twin" \in DOMAIN line THEN {"C10:twin-without-annotation"} ELSE {})
         \cup (IF P \cap TaintedOK(line, g) # {} THEN {"C10:protected-tainted"} ELSE {})
         \cup (IF P \cap UntaintedOK(line, g) # {} THEN {"C10:protected-untainted"} ELSE {})
        : g \in Groups(pre)}

-----------------------------------------------------------------------------
\* C11 — dry mode performs no writes
C11v(line, pre) ==
  UNION {IF Dry(pre, g) /\ WriteCalls(line, g) # <<>> THEN {<<"C11", "write-in-dry-mode:" \o WriteCalls(line, g)[1].op, g, WriteCalls(line, g)[1].n>>} ELSE {}
        : g \in Groups(pre)}
C11f(line, pre, post, exp) ==
  UNION {IF ~Dry(pre, g) THEN {} ELSE
         {"C11:dry-" \o exp.res[g].branch} \cup (IF pre.dryAll THEN {"C11:global-flag"} ELSE {"C11:group-flag"})
         \cup (IF Len(post.groups[g].ctl.tracker) > Len(pre.groups[g].ctl.tracker) THEN {"C11:dry-taint"} ELSE {})
         \cup (IF Len(post.groups[g].ctl.tracker) < Len(pre.groups[g].ctl.tracker) THEN {"C11:dry-untaint"} ELSE {})
         \cup (IF post.groups[g].ctl.lockAt = pre.now /\ pre.groups[g].ctl.lockAt # pre.now THEN {"C11:dry-cloud-increase"} ELSE {})
        : g \in Groups(pre)}

-----------------------------------------------------------------------------
\* C12 — groups are isolated (single-run part: targets, and later groups still processed)
C12v(line, pre) ==
  UNION {{<<"C12", "foreign-target:" \o c.op, g, c.n>> : c \in {line.calls[i] : i \in {j \in 1..Len(line.calls) :
              LET c == line.calls[j] IN
              /\ c.g = g
              /\ \/ (c.op \in {"get", "update", "delete"} /\ c.n \notin DOMAIN pre.groups[g].api \cup Listed(pre, g))
                 \/ (c.op = "terminate" /\ c.ok /\ c.b # 1)
                 \/ (c.op = "set_desired" /\ c.n # g)}}}
        : g \in Groups(pre)}
  \cup (IF line.ret = "nil" /\ ~line.panic /\ ~line.hang /\ ~line.exit /\ \E i \in 1..Len(pre.gorder) : ~\E j \in 1..Len(line.calls) :
            line.calls[j].op = "list_pods" /\ line.calls[j].g = pre.gorder[i]
        THEN {<<"C12", "later-group-not-processed", "", "">>} ELSE {})
C12g(line, pre) ==   \* each group is evaluated only from the pods selecting it: the request totals the scan exported are those of its own pods
  UNION {IF GaugeSet(line, g) /\ ListedOK(line, g) /\ line.gauges[g].exact
            /\ (line.gauges[g].cpuReq # ReqCpu(pre.groups[g]) \/ line.gauges[g].memReq # ReqMem(pre.groups[g]))
         THEN {<<"C12", "group-evaluated-from-other-pods-than-its-own", g, "">>} ELSE {} : g \in Groups(pre)}
C12x(line, pre, exp) ==   \* a failure that the specification classifies as non-fatal stopped the scan before the later groups
  IF line.ret # "nil" /\ ~line.crash /\ ~line.panic /\ ~line.hang /\ ~line.exit /\ exp.valid /\ exp.ret = "nil"
     /\ \E i \in 1..Len(pre.gorder) : ~\E j \in 1..Len(line.calls) : line.calls[j].op = "list_pods" /\ line.calls[j].g = pre.gorder[i]
  THEN {<<"C12", "non-fatal-failure-stopped-later-groups", "", "">>} ELSE {}
C12f(line, pre) ==
  (IF Cardinality(Groups(pre)) > 1 THEN {"C12:multi-group"} ELSE {})
  \cup (IF Cardinality(Groups(pre)) > 1 /\ \E i \in 1..Len(line.calls) : ~line.calls[i].ok /\ line.calls[i].g # pre.gorder[Len(pre.gorder)] /\ line.calls[i].g # ""
          THEN {"C12:failure-before-last-group"} ELSE {})
  \cup (IF "default" \in Groups(pre) THEN {"C12:default-group"} ELSE {})

-----------------------------------------------------------------------------
\* C13 (controller level) — request / capacity / percent gauges against the abstract pods and nodes
C13v(line, pre) ==
  UNION {IF ~(GaugeSet(line, g) /\ ListedOK(line, g)) THEN {} ELSE
         LET gs == pre.groups[g]
             G == line.gauges[g]
             cc == IF Dry(pre, g) THEN G.cpuCap ELSE SumSeq(SetToSortedSeq(UntSet(pre, g)), LAMBDA n : V(pre, g)[n].cpu)
             cm == IF Dry(pre, g) THEN G.memCap ELSE SumSeq(SetToSortedSeq(UntSet(pre, g)), LAMBDA n : V(pre, g)[n].mem)
             \* |pct/1000 - 100 req/cap| <= 1/1000  <=>  |pct * cap - 100000 * req| <= cap
             near(p, req, cap) == LET d == p * cap - 100000 * req IN d <= cap /\ -d <= cap
         IN (IF G.exact /\ (G.cpuReq # ReqCpu(gs) \/ G.memReq # ReqMem(gs)) THEN {<<"C13", "request-total", g, "">>} ELSE {})
            \cup (IF G.exact /\ (G.cpuCap # cc \/ G.memCap # cm) THEN {<<"C13", "capacity-total", g, "">>} ELSE {})
            \cup (IF G.pctSet /\ cc > 0 /\ cm > 0 /\ cc < 20000 /\ cm < 20000 /\ ReqCpu(gs) < 20000 /\ ReqMem(gs) < 20000
                    /\ ~(near(G.cpuPct, ReqCpu(gs), cc) /\ near(G.memPct, ReqMem(gs), cm))
                  THEN {<<"C13", "percent", g, "">>} ELSE {})
        : g \in Groups(pre)}
C13f(line, pre) ==
  UNION {IF ~(GaugeSet(line, g) /\ ListedOK(line, g)) THEN {} ELSE
         {"C13:totals-checked"} \cup (IF line.gauges[g].pctSet THEN {"C13:percent-checked"} ELSE {})
         \cup (IF Len(pre.groups[g].pods) > 1 THEN {"C13:several-pods"} ELSE {})
        : g \in Groups(pre)}

-----------------------------------------------------------------------------
\* C15 — taint writes are precise and never re-stamp
C15v(line, pre, post) ==
  UNION {{<<"C15", "imprecise-write:" \o c.s, g, c.n>> : c \in {line.calls[i] : i \in {j \in 1..Len(line.calls) :
              LET c == line.calls[j] IN
              /\ c.g = g /\ c.op = "update"
              /\ ~ \/ (c.s = "taint:" \o EffectOf(pre.groups[g]) /\ c.b = 1 /\ c.a = pre.now
                        /\ (c.n \in DOMAIN pre.groups[g].api => ~pre.groups[g].api[c.n].taint.has))
                   \/ (c.s = "untaint:" /\ c.b = 1)}}}
         \cup {<<"C15", "restamped", g, n>> : n \in {m \in DOMAIN pre.groups[g].api \cap DOMAIN post.groups[g].api :
                   /\ pre.groups[g].api[m].taint.has /\ post.groups[g].api[m].taint.has
                   /\ pre.groups[g].api[m].taint # post.groups[g].api[m].taint}}
        : g \in Groups(pre)}
C15f(line, pre) ==
  UNION {(IF TaintedOK(line, g) # {} THEN {"C15:taint-write"} ELSE {})
         \cup (IF UntaintedOK(line, g) # {} THEN {"C15:untaint-write"} ELSE {})
         \cup (IF pre.groups[g].lag /\ \E n \in Gets(line, g) : n \in DOMAIN pre.groups[g].api /\ n \in Listed(pre, g)
                    /\ pre.groups[g].api[n].taint.has /\ ~V(pre, g)[n].taint.has THEN {"C15:lagging-view-already-tainted"} ELSE {})
         \cup (IF \E i \in 1..Len(line.faults) : line.faults[i].op = "conflict" /\ \E j \in 1..Len(line.calls) :
                       line.calls[j].op = "update" /\ line.calls[j].n = line.faults[i].t /\ line.calls[j].g = g /\ ~line.calls[j].ok
                 THEN {"C15:write-lost-a-race"} ELSE {})
        : g \in Groups(pre)}

-----------------------------------------------------------------------------
\* C19 (controller level) — decrement flag, Node deletes only after the whole cloud batch, desired - min, exit on not-in-group
C19v(line, pre, exp) ==
  LET cs == line.calls
      isDel(i) == cs[i].op = "delete"
      isTerm(i) == cs[i].op = "terminate"
      \* start of the maximal run of terminate calls that ends just before the run of deletes containing i
      lastNonDel(i) == CHOOSE k \in 0..i : (k = 0 \/ ~isDel(k)) /\ \A m \in (k + 1)..i : isDel(m)
      \* a failed terminate call ends its batch (the provider stops at the first failure), so the batch that precedes a run of
      \* deletes is the maximal run of ACCEPTED terminate calls just before it
      okTerm(m) == isTerm(m) /\ cs[m].ok
      runStart(k) == CHOOSE s \in 1..(k + 1) : (\A m \in s..k : okTerm(m) /\ cs[m].g = cs[k].g) /\ (s = 1 \/ ~(okTerm(s - 1) /\ cs[s - 1].g = cs[k].g))
  IN {<<"C19", "terminate-without-decrement", cs[i].g, cs[i].n>> : i \in {j \in 1..Len(cs) : isTerm(j) /\ cs[j].a # 1}}
     \cup {<<"C19", "node-deleted-before-cloud-batch-accepted", cs[i].g, cs[i].n>> : i \in {j \in 1..Len(cs) :
              /\ isDel(j)
              /\ LET k == lastNonDel(j) IN
                 ~ /\ k > 0 /\ isTerm(k)
                   /\ \A m \in runStart(k)..k : cs[m].ok
                   /\ \E m \in runStart(k)..k : cs[m].n = cs[j].n}}
     \cup UNION {IF Cardinality(TermOK(line, g)) > Max2(0, (IF RefreshFailed(line) THEN pre.groups[g].asg.desired ELSE pre.groups[g].asg.desired) - pre.groups[g].asg.min)
                   THEN {<<"C19", "terminated-below-minimum", g, "">>} ELSE {} : g \in Groups(pre)}
     \cup UNION {{<<"C19", "terminated-non-candidate-instance", g, n>> : n \in {m \in TermAttempt(line, g) : m \notin Listed(pre, g)}} : g \in Groups(pre)}
     \cup (IF exp.ret = "notingroup" /\ exp.valid /\ line.ret # "notingroup" /\ ~line.panic /\ ~line.hang
             THEN {<<"C19", "continued-after-not-in-group", "", "">>} ELSE {})
     \* "terminates exactly the instances backing the given nodes": when every given node is a member (the specification, which knows the
     \* cloud's instance list, does not stop), stopping with not-in-group instead of terminating them is not that
     \cup (IF line.ret = "notingroup" /\ exp.valid /\ exp.ret # "notingroup" /\ ~line.crash /\ ~line.panic /\ ~line.hang
             THEN {<<"C19", "not-in-group-although-every-given-node-is-a-member", "", "">>} ELSE {})
     \* a removal request that would take the group below the ASG minimum is refused as a whole: for every run of consecutive
     \* terminate calls of a group (= one request, cut short at its first failure), the desired capacity the cloud had when the
     \* request started, minus the size of the run, stays at or above the minimum
     \cup UNION {LET idx == {i \in 1..Len(cs) : isTerm(i) /\ cs[i].g = g}
                    starts == {i \in idx : i = 1 \/ ~(isTerm(i - 1) /\ cs[i - 1].g = g /\ cs[i - 1].ok)}
                    runEnd(st) == CHOOSE e \in st..Len(cs) : (\A m \in st..e : isTerm(m) /\ cs[m].g = g) /\ (e = Len(cs) \/ ~(isTerm(e + 1) /\ cs[e + 1].g = g) \/ ~cs[e].ok)
                                                            /\ \A m \in st..(e - 1) : cs[m].ok
                    base == IF RefreshFailed(line) THEN pre.groups[g].pc.desired ELSE pre.groups[g].asg.desired
                    before(st) == Cardinality({m \in idx : m < st /\ cs[m].ok})
                IN {<<"C19", "request-breaching-the-minimum-not-refused-whole", g, cs[st].n>> :
                      st \in {x \in starts : LET d0 == base - before(x) IN d0 <= pre.groups[g].asg.min \/ d0 - (runEnd(x) - x + 1) < pre.groups[g].asg.min}}
               : g \in Groups(pre)}
C19f(line, pre, exp) ==
  (IF \E i \in 1..Len(line.calls) : line.calls[i].op = "delete" THEN {"C19:node-deletes"} ELSE {})
  \cup (IF \E i \in 1..Len(line.calls) : line.calls[i].op = "terminate" /\ ~line.calls[i].ok THEN {"C19:terminate-failed"} ELSE {})
  \cup (IF exp.ret = "notingroup" THEN {"C19:not-in-group"} ELSE {})
  \cup UNION {IF TermOK(line, g) # {} /\ Cardinality(TermOK(line, g)) = pre.groups[g].asg.desired - pre.groups[g].asg.min THEN {"C19:down-to-minimum"} ELSE {} : g \in Groups(pre)}
  \cup UNION {IF \E r \in {exp.res[g]} : r.branch \in {"force_fatal", "down_fatal", "idle_fatal"} THEN {"C19:" \o exp.res[g].branch} ELSE {} : g \in Groups(pre)}

-----------------------------------------------------------------------------
\* C18 (controller level) — a fleet scale-up that fails leaks nothing and takes no cool-down lock
FleetCallsOf(line, g) ==
  LET cs == SelectSeq(line.calls, LAMBDA c : c.g = g /\ c.op \in {"create_fleet", "fleet_ids", "attach", "terminate_instances"}) IN
  [i \in 1..Len(cs) |-> [op |-> cs[i].op, ok |-> cs[i].ok, a |-> cs[i].a, b |-> cs[i].b, r |-> [k \in 1..Len(cs[i].r) |-> <<cs[i].r[k][1], cs[i].r[k][2]>>], s |-> cs[i].s]]
LockTakenNow(pre, post, g) == post.groups[g].ctl.lockAt = pre.now /\ post.groups[g].ctl.isLocked /\ post.groups[g].accepted = pre.now
C18v(line, pre, post) ==
  \* (a process killed in the middle of a fleet scale-up is outside the statement: it is about failing steps, which the code survives)
  UNION {IF ~pre.groups[g].cfg.fleet \/ FleetCallsOf(line, g) = <<>> \/ line.crash THEN {} ELSE
         {<<"C18", x, g, "">> : x \in C18bad([fleet |-> TRUE], FleetCallsOf(line, g), IF LockTakenNow(pre, post, g) THEN "nil" ELSE "error") \ {"success-reported-as-failure"}}
        : g \in Groups(pre)}
C18f(line, pre, post) ==
  UNION {IF ~pre.groups[g].cfg.fleet \/ FleetCallsOf(line, g) = <<>> \/ line.crash THEN {} ELSE
         (IF LockTakenNow(pre, post, g) THEN {"C18:ctl-fleet-accepted"} ELSE {"C18:ctl-fleet-failed-no-lock"})
        : g \in Groups(pre)}

-----------------------------------------------------------------------------
\* C20 — a scan never panics or wedges; only the documented condition stops the controller
C20v(line, pre, exp) ==
  (IF line.panic THEN {<<"C20", "panic", "", line.panicMsg>>} ELSE {})
  \cup (IF line.hang THEN {<<"C20", "hang", "", "">>} ELSE {})
  \cup (IF line.exit /\ ~\E g \in Groups(pre) : pre.groups[g].cfg.fleet /\ pre.groups[g].tries >= 2 THEN {<<"C20", "undocumented-exit", "", "">>} ELSE {})
  \cup (IF line.ret = "error" /\ ~line.panic /\ ~line.hang /\ ~line.exit /\ ~line.crash THEN {<<"C20", "scan-aborted-by-non-fatal-problem", "", "">>} ELSE {})
  \cup (IF line.ret = "notingroup" /\ exp.valid /\ exp.ret # "notingroup" THEN {<<"C20", "stopped-without-not-in-group", "", "">>} ELSE {})
C20f(line, pre, exp) ==
  (IF line.faults # <<>> THEN {"C20:faulty-scan"} ELSE {})
  \cup {"C20:fault-" \o line.faults[i].op : i \in 1..Len(line.faults)}
  \cup UNION {(IF \E n \in Listed(pre, g) : V(pre, g)[n].pid # "ok" THEN {"C20:odd-provider-id"} ELSE {})
              \cup (IF \E n \in Listed(pre, g) : V(pre, g)[n].cpu = 0 THEN {"C20:zero-or-missing-allocatable"} ELSE {})
              \cup (IF \E n \in Listed(pre, g) : V(pre, g)[n].taint.has /\ ~V(pre, g)[n].taint.ok THEN {"C20:unparsable-taint"} ELSE {})
              \cup (IF \E n \in Listed(pre, g) : V(pre, g)[n].taint.has /\ V(pre, g)[n].taint.ok /\ V(pre, g)[n].taint.at > pre.now THEN {"C20:future-taint"} ELSE {})
              \cup (IF exp.res[g].lookMay # {} THEN {"C20:cloud-lookups"} ELSE {})
              \cup (IF exp.res[g].branch = "div_zero" THEN {"C20:zero-capacity-error"} ELSE {})
             : g \in Groups(pre)}

-----------------------------------------------------------------------------
Violations(line, pre, post, exp) ==
  C01v(line, pre) \cup C01r(line, pre) \cup C02v(line, pre) \cup C03v(line, pre, post) \cup C04v(line, pre, post, exp) \cup C05v(line, pre) \cup C05z(line, pre)
  \cup C06v(line, pre) \cup C07v(line, pre, post, exp) \cup C08v(line, pre) \cup C09v(line, pre) \cup C10v(line, pre, exp)
  \cup C11v(line, pre) \cup C12v(line, pre) \cup C12x(line, pre, exp) \cup C12g(line, pre) \cup C13v(line, pre) \cup C15v(line, pre, post) \cup C18v(line, pre, post) \cup C19v(line, pre, exp) \cup C20v(line, pre, exp)

\* only the predicates of the given property ids (the model asserts one property at a time: evaluating all of them on every
\* outcome was the dominant cost of model checking)
ViolationsFor(ids, line, pre, post, exp) ==
  (IF "C01" \in ids THEN C01v(line, pre) \cup C01r(line, pre) ELSE {}) \cup (IF "C02" \in ids THEN C02v(line, pre) ELSE {})
  \cup (IF "C03" \in ids THEN C03v(line, pre, post) ELSE {}) \cup (IF "C04" \in ids THEN C04v(line, pre, post, exp) ELSE {})
  \cup (IF "C05" \in ids THEN C05v(line, pre) \cup C05z(line, pre) ELSE {}) \cup (IF "C06" \in ids THEN C06v(line, pre) ELSE {})
  \cup (IF "C07" \in ids THEN C07v(line, pre, post, exp) ELSE {}) \cup (IF "C08" \in ids THEN C08v(line, pre) ELSE {})
  \cup (IF "C09" \in ids THEN C09v(line, pre) ELSE {}) \cup (IF "C10" \in ids THEN C10v(line, pre, exp) ELSE {})
  \cup (IF "C11" \in ids THEN C11v(line, pre) ELSE {}) \cup (IF "C12" \in ids THEN C12v(line, pre) \cup C12x(line, pre, exp) \cup C12g(line, pre) ELSE {})
  \cup (IF "C13" \in ids THEN C13v(line, pre) ELSE {}) \cup (IF "C15" \in ids THEN C15v(line, pre, post) ELSE {})
  \cup (IF "C18" \in ids THEN C18v(line, pre, post) ELSE {}) \cup (IF "C19" \in ids THEN C19v(line, pre, exp) ELSE {})
  \cup (IF "C20" \in ids THEN C20v(line, pre, exp) ELSE {})

Facts(line, pre, post, exp) ==
  C01f(line, pre) \cup C02f(line, pre) \cup C03f(line, pre) \cup C04f(line, pre) \cup C05f(line, pre) \cup C06f(line, pre)
  \cup C07f(line, pre, exp) \cup C08f(line, pre) \cup C09f(line, pre) \cup C10f(line, pre) \cup C11f(line, pre, post, exp)
  \cup C12f(line, pre) \cup C13f(line, pre) \cup C15f(line, pre) \cup C18f(line, pre, post) \cup C19f(line, pre, exp) \cup C20f(line, pre, exp)
=============================================================================
