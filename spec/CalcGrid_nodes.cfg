CONSTANTS
  Tier = "quick"
  Family = "nodes"
  Seed = 1
INIT Init
NEXT Next
INVARIANTS GridOK Emit
CHECK_DEADLOCK FALSE
