------------------------------ MODULE Escalator ------------------------------
(***************************************************************************)
(* The model: one escalator node group in an adversarial environment.      *)
(* State = the abstract world of DESIGN.md appendix A (Kubernetes nodes    *)
(* and pods, the ASG, the provider's cache, controller memory, time).      *)
(* Environment actions are separately enabled so that TLC explores every   *)
(* interleaving; RunOnce(F) is the scan of EscalatorCore for every fault   *)
(* set F and every admissible tie-break.  The properties are the very      *)
(* predicates of Props.tla that are evaluated on traces of the real code,  *)
(* here evaluated on every outcome the specification admits.               *)
(*                                                                         *)
(* Time is not bounded: the VIEW maps states to their time-abstract form.  *)
(***************************************************************************)
EXTENDS EscalatorCore, Props, Json, TLCExt

CONSTANTS
  G,            \* the group's name
  NodeIds,      \* potential nodes / instances (strings)
  CfgC,         \* configuration record (Core's cfg)
  DryAll,
  AsgMin0, AsgMax0, AsgBoundsSet,   \* initial ASG bounds; values AsgEdit may set: set of <<min, max>>
  KC, KM,       \* node size in units (cpu, mem)
  MaxPend,      \* bound on pending pods
  EnvOn,        \* set of enabled environment actions (strings)
  FaultOps,     \* fault operations explored: subset of {"get","update","conflict","delete","terminate","set_desired","list_pods","list_nodes","describe_all","crash"}
  MaxFaults,    \* max size of a fault set
  TaintKinds,   \* ExtTaint values: subset of {"now","bad","future","zero"}
  InitNodes,    \* number of nodes present initially
  PropIds,      \* property ids whose predicates are asserted on every outcome
  EmitRate,     \* 0: emit nothing; r > 0: emit about one in r distinct states as a replay case
  AV            \* value sets for InitAll (the all-states configurations): a record, see InitAll

VARIABLES now, api, run, pend, asg, pc, ctl, accepted, alive,
          snap   \* the informer cache: [on |-> FALSE] = in sync with the API; [on |-> TRUE, api |-> a] = frozen at an earlier content a

vars == <<now, api, run, pend, asg, pc, ctl, accepted, alive, snap>>

NoTaint == [has |-> FALSE, ok |-> FALSE, at |-> 0]
FreshNode(t) == [created |-> t, cordoned |-> FALSE, force |-> FALSE, nodel |-> FALSE, taint |-> NoTaint, pid |-> "ok", cpu |-> KC, mem |-> KM]

Present == DOMAIN api
NoSnap == [on |-> FALSE, api |-> [n \in {} |-> FreshNode(0)]]
\* group pods as Core sees them: unit pods (1, 1); running ones are scheduled on their node
PodsSeq ==
  LET runSeq(n) == [i \in 1..run[n] |-> [cpu |-> 1, mem |-> 1, node |-> n, pending |-> FALSE, sched |-> TRUE]]
      RECURSIVE Cat(_)
      Cat(S) == IF S = {} THEN <<>> ELSE LET x == CHOOSE x \in S : TRUE IN runSeq(x) \o Cat(S \ {x})
  IN Cat({n \in NodeIds : run[n] > 0}) \o [i \in 1..pend |-> [cpu |-> 1, mem |-> 1, node |-> "", pending |-> TRUE, sched |-> FALSE]]

GroupRec == [cfg |-> CfgC, order |-> SetToSortedSeq(Present), lag |-> snap.on, api |-> api, view |-> IF snap.on THEN snap.api ELSE api, pods |-> PodsSeq,
             asg |-> asg, pc |-> pc, ctl |-> ctl, accepted |-> accepted, tries |-> 0, seenCpu |-> ctl.capCpu, seenMem |-> ctl.capMem]
World == [now |-> now, dryAll |-> DryAll, alive |-> alive, gorder |-> <<G>>, groups |-> [g \in {G} |-> GroupRec]]

Ctl0 == [lockAt |-> Never, isLocked |-> FALSE, requested |-> 0, delta |-> 0, lastOut |-> Never, capCpu |-> 0, capMem |-> 0, tracker |-> <<>>,
         minEff |-> IF CfgC.auto THEN 0 ELSE CfgC.min, maxEff |-> IF CfgC.auto THEN 0 ELSE CfgC.max]

Init ==
  LET first == CHOOSE S \in SUBSET NodeIds : Cardinality(S) = InitNodes IN
  /\ now = 0
  /\ api = [n \in first |-> FreshNode(0)]
  /\ run = [n \in NodeIds |-> 0]
  /\ pend = 0
  /\ asg = [min |-> AsgMin0, max |-> AsgMax0, desired |-> InitNodes, members |-> first, terminating |-> {}, linger |-> "Linger" \in EnvOn]
  /\ pc = asg
  /\ ctl = Ctl0
  /\ accepted = Never
  /\ alive = TRUE
  /\ snap = NoSnap

\* "For every cluster state": every well-typed state over the value sets of AV is an initial state (now = 10); used with
\* NEXT Stutter and the invariant InvNoViolation, so that no reachability argument is involved at all.
\*   AV.minNodes         least number of present nodes        AV.created  set of creation instants (relative to now)
\*   AV.cordoned, AV.force, AV.nodel   subsets of BOOLEAN      AV.taint    set of taint ages; -1 = no taint, -2 = unparsable value, -3 = far future
\*   AV.run, AV.pend     sets of pod counts                    AV.extra    set of (desired - number of members)
\*   AV.lost             subsets of BOOLEAN: may an instance be missing from the ASG although its Node exists
\*   AV.lock             set of lock ages, -1 = never locked    AV.delta    set of remembered deltas
TaintAV(k) == IF k = -1 THEN NoTaint ELSE IF k = -2 THEN [has |-> TRUE, ok |-> FALSE, at |-> 0]
              ELSE IF k = -3 THEN [has |-> TRUE, ok |-> TRUE, at |-> 1000000] ELSE [has |-> TRUE, ok |-> TRUE, at |-> 10 - k]
NodeShapes == {[created |-> 10 - c, cordoned |-> co, force |-> f, nodel |-> nd, taint |-> TaintAV(t), pid |-> "ok", cpu |-> KC, mem |-> KM] :
                 c \in AV.created, co \in AV.cordoned, f \in AV.force, nd \in AV.nodel, t \in AV.taint}
InitAll ==
  /\ now = 10
  /\ \E P \in {Q \in SUBSET NodeIds : Cardinality(Q) >= AV.minNodes} :
       /\ api \in [P -> NodeShapes]
       /\ run \in {r \in [NodeIds -> AV.run] : \A n \in NodeIds \ P : r[n] = 0}
       /\ \E M \in (IF TRUE \in AV.lost THEN SUBSET P ELSE {P}), e \in AV.extra :
            asg = [min |-> AsgMin0, max |-> AsgMax0, desired |-> Cardinality(M) + e, members |-> M, terminating |-> {}, linger |-> "Linger" \in EnvOn]
  /\ pend \in AV.pend
  /\ pc = asg
  /\ \E la \in AV.lock, d \in AV.delta :
       /\ ctl = [Ctl0 EXCEPT !.lockAt = IF la < 0 THEN Never ELSE 10 - la, !.isLocked = la >= 0, !.requested = IF la >= 0 THEN 1 ELSE 0, !.delta = d,
                             !.lastOut = IF d > 0 THEN 9 ELSE Never,
                             !.minEff = IF CfgC.auto THEN AsgMin0 ELSE CfgC.min, !.maxEff = IF CfgC.auto THEN AsgMax0 ELSE CfgC.max]
       /\ accepted = IF la < 0 THEN Never ELSE 10 - la
  /\ alive = TRUE
  /\ snap = NoSnap
Stutter == UNCHANGED vars

-----------------------------------------------------------------------------
(* Environment *)
On(a) == a \in EnvOn

Tick == On("Tick") /\ now' = now + 1 /\ UNCHANGED <<api, run, pend, asg, pc, ctl, accepted, alive, snap>>

PodArrive == On("PodArrive") /\ pend < MaxPend /\ pend' = pend + 1 /\ UNCHANGED <<now, api, run, asg, pc, ctl, accepted, alive, snap>>

\* (the escalator taint may be PreferNoSchedule, so a pod can still land on a tainted node)
Schedulable(n) == n \in Present /\ ~api[n].cordoned /\ ~api[n].force /\ (~api[n].taint.has \/ "PodOnTainted" \in EnvOn) /\ run[n] < Min2(KC, KM)
PodSchedule == On("PodSchedule") /\ pend > 0 /\ \E n \in NodeIds : Schedulable(n) /\ run' = [run EXCEPT ![n] = @ + 1] /\ pend' = pend - 1
                 /\ UNCHANGED <<now, api, asg, pc, ctl, accepted, alive, snap>>

PodFinish == /\ On("PodFinish")
             /\ \/ \E n \in NodeIds : run[n] > 0 /\ run' = [run EXCEPT ![n] = @ - 1] /\ UNCHANGED pend
                \/ pend > 0 /\ pend' = pend - 1 /\ UNCHANGED run
             /\ UNCHANGED <<now, api, asg, pc, ctl, accepted, alive, snap>>

\* the cloud starts an instance while the group is below its desired capacity
InstanceGone == On("Linger") /\ \E n \in asg.terminating : asg' = [asg EXCEPT !.members = @ \ {n}, !.terminating = @ \ {n}]
                  /\ UNCHANGED <<now, api, run, pend, pc, ctl, accepted, alive, snap>>

\* the cloud takes an instance out of the group behind escalator's back (failed health check, spot reclaim): the Node object stays
\* until Kubernetes collects it; the group is below its desired capacity and the cloud will launch a replacement
InstanceLost == On("InstanceLost") /\ \E n \in asg.members \ asg.terminating : asg' = [asg EXCEPT !.members = @ \ {n}]
                  /\ UNCHANGED <<now, api, run, pend, pc, ctl, accepted, alive, snap>>

CloudLaunch == On("CloudLaunch") /\ Cardinality(asg.members \ asg.terminating) < asg.desired
                 /\ \E n \in NodeIds : n \notin asg.members /\ n \notin Present /\ run[n] = 0
                      /\ n = (CHOOSE m \in NodeIds : m \notin asg.members /\ m \notin Present /\ run[m] = 0)   \* symmetric: pick one
                      /\ asg' = [asg EXCEPT !.members = @ \cup {n}]
                 /\ UNCHANGED <<now, api, run, pend, pc, ctl, accepted, alive, snap>>

Register == On("Register") /\ \E n \in asg.members : n \notin Present
                 /\ api' = [m \in Present \cup {n} |-> IF m = n THEN FreshNode(now) ELSE api[m]]
                 /\ UNCHANGED <<now, run, pend, asg, pc, ctl, accepted, alive, snap>>

SetNode(n, f(_)) == api' = [api EXCEPT ![n] = f(@)]
EnvNode(name, P(_), f(_)) == On(name) /\ \E n \in Present : P(api[n]) /\ SetNode(n, f) /\ UNCHANGED <<now, run, pend, asg, pc, ctl, accepted, alive, snap>>

Cordon      == EnvNode("Cordon", LAMBDA o : ~o.cordoned, LAMBDA o : [o EXCEPT !.cordoned = TRUE])
Uncordon    == EnvNode("Uncordon", LAMBDA o : o.cordoned, LAMBDA o : [o EXCEPT !.cordoned = FALSE])
ExtForce    == EnvNode("ExtForce", LAMBDA o : ~o.force, LAMBDA o : [o EXCEPT !.force = TRUE])
ExtUnforce  == EnvNode("ExtUnforce", LAMBDA o : o.force, LAMBDA o : [o EXCEPT !.force = FALSE])
Annotate    == EnvNode("Annotate", LAMBDA o : ~o.nodel, LAMBDA o : [o EXCEPT !.nodel = TRUE])
Unannotate  == EnvNode("Unannotate", LAMBDA o : o.nodel, LAMBDA o : [o EXCEPT !.nodel = FALSE])
ExtUntaint  == EnvNode("ExtUntaint", LAMBDA o : o.taint.has, LAMBDA o : [o EXCEPT !.taint = NoTaint])
TaintOf(k) == CASE k = "now" -> [has |-> TRUE, ok |-> TRUE, at |-> now]
                [] k = "bad" -> [has |-> TRUE, ok |-> FALSE, at |-> 0]
                [] k = "future" -> [has |-> TRUE, ok |-> TRUE, at |-> 1000000]
                [] k = "zero" -> [has |-> TRUE, ok |-> TRUE, at |-> -1000000]
ExtTaint    == On("ExtTaint") /\ \E n \in Present, k \in TaintKinds : ~api[n].taint.has /\ SetNode(n, LAMBDA o : [o EXCEPT !.taint = TaintOf(k)])
                 /\ UNCHANGED <<now, run, pend, asg, pc, ctl, accepted, alive, snap>>

\* Kubernetes garbage-collects the Node of an instance that is gone (pods on it go with it)
NodeGone == On("NodeGone") /\ \E n \in Present : n \notin asg.members
                 /\ api' = [m \in Present \ {n} |-> api[m]] /\ run' = [run EXCEPT ![n] = 0]
                 /\ UNCHANGED <<now, pend, asg, pc, ctl, accepted, alive, snap>>

AsgEdit == On("AsgEdit") /\ \E b \in AsgBoundsSet : (b[1] # asg.min \/ b[2] # asg.max) /\ b[1] <= asg.desired /\ asg.desired <= b[2]
                 /\ asg' = [asg EXCEPT !.min = b[1], !.max = b[2]]
                 /\ UNCHANGED <<now, api, run, pend, pc, ctl, accepted, alive, snap>>

\* an operator raises the desired capacity by hand (more nodes than max_nodes may then register)
DesiredBump == On("DesiredBump") /\ asg.desired < asg.max /\ asg' = [asg EXCEPT !.desired = @ + 1]
                 /\ UNCHANGED <<now, api, run, pend, pc, ctl, accepted, alive, snap>>

\* the informer cache stops receiving updates (watch stalled) and later resyncs: while it lags, the scan lists the frozen content
\* but every write, and the re-read before a taint update, goes to the live API
LagOn  == On("Lag") /\ ~snap.on /\ snap' = [on |-> TRUE, api |-> api] /\ UNCHANGED <<now, api, run, pend, asg, pc, ctl, accepted, alive>>
LagOff == On("Lag") /\ snap.on /\ snap' = NoSnap /\ UNCHANGED <<now, api, run, pend, asg, pc, ctl, accepted, alive>>

\* the controller process restarts: its memory is lost, the ghost is per lifetime
Restart == On("Restart") /\ (ctl # [Ctl0 EXCEPT !.minEff = ctl.minEff, !.maxEff = ctl.maxEff] \/ ~alive \/ accepted # Never)
                 /\ ctl' = [Ctl0 EXCEPT !.minEff = IF CfgC.auto THEN pc.min ELSE CfgC.min, !.maxEff = IF CfgC.auto THEN pc.max ELSE CfgC.max]
                 /\ accepted' = Never /\ alive' = TRUE
                 /\ UNCHANGED <<now, api, run, pend, asg, pc, snap>>

-----------------------------------------------------------------------------
(* The scan *)

FaultUniverse ==
  {[op |-> o, t |-> n] : o \in FaultOps \cap {"get", "update", "conflict", "delete", "terminate"}, n \in Present}
  \cup {[op |-> o, t |-> G] : o \in FaultOps \cap {"set_desired", "list_pods", "list_nodes", "slow"}}
  \cup (IF "describe_all" \in FaultOps THEN {[op |-> "describe_asgs", t |-> "all"]} ELSE {})
  \cup (IF "crash" \in FaultOps THEN {[op |-> "crash", t |-> "#" \o ToString(k)] : k \in 1..3} ELSE {})
AllFaultSets == {F \in SUBSET FaultUniverse : Cardinality(F) <= MaxFaults}

\* every outcome the specification admits for world W and fault set F
Outcomes(W, F) ==
  LET Obs(a, d) == [g \in {G} |-> [att |-> a, nd |-> d, ndAny |-> FALSE, fleetLo |-> 0]]
      nds == RunOnce(W, F, Obs(<<>>, 0)).res[G].ndSet                    \* probe: which band decisions are admissible
      Atts(d) == LET sel == RunOnce(W, F, Obs(<<>>, d)).res[G].sel       \* probe: which selection problem that decision poses
                     created == CreatedOf(W.groups[G])
                 IN IF sel.dir = 0 THEN {<<>>} ELSE Selections(created, sel.dir, sel.cands, sel.k, sel.fails)
  IN {r \in UNION {{RunOnce(W, F, Obs(a, d)) : a \in Atts(d)} : d \in nds} : r.valid}

\* A fault on (op, target) can only change the scan if the scan performs op on target: fault sets are grown one fault at
\* a time from the calls of the outcomes under the faults chosen so far (a failing write may bring new targets into play).
Touches(r, f) == \E i \in 1..Len(r.calls) : /\ r.calls[i].op = (IF f.op = "conflict" THEN "update" ELSE f.op)
                                              /\ \/ r.calls[i].n = f.t
                                                 \/ (f.op \in {"set_desired", "list_pods", "list_nodes"} /\ r.calls[i].g = f.t)
                                                 \/ f.op = "describe_asgs"
                 \/ (f.op = "slow" /\ \E j \in 1..Len(r.calls) : r.calls[j].op \in {"set_desired", "create_fleet"} /\ r.calls[j].ok /\ r.calls[j].g = f.t)
                 \/ (f.op = "crash" /\ ~r.crash /\ KthWrite(r.calls, CHOOSE k \in 1..3 : f.t = "#" \o ToString(k)) > 0)
Relevant(W, F) == {f \in FaultUniverse \ F : \E r \in Outcomes(W, F) : Touches(r, f)}
RECURSIVE Grow(_, _, _)
Grow(W, Fs, k) == IF k = 0 THEN Fs ELSE Grow(W, Fs \cup UNION {{F \cup {f} : f \in Relevant(W, F)} : F \in Fs}, k - 1)
FaultSets == Grow(World, {{}}, MaxFaults)

LineOf(W, F, r) == [ev |-> "scan", src |-> "model", id |-> 0, faults |-> SetToSortedSeq(F), calls |-> r.calls, ret |-> r.ret,
                    panic |-> FALSE, hang |-> FALSE, exit |-> FALSE, crash |-> r.crash, panicMsg |-> "",
                    lookups |-> [g \in {G} |-> <<>>]]

PropViolations(W, F, r) == ViolationsFor(PropIds, LineOf(W, F, r), W, r.W, r)

RunOnceAct ==
  /\ alive
  /\ \E F \in FaultSets : \E r \in Outcomes(World, F) :
       /\ Assert(PropViolations(World, F, r) = {},
                 <<"PROPERTY VIOLATED ON THE MODEL", PropViolations(World, F, r), "MODELCASE",
                   ToJson([state |-> World, faultsets |-> <<SetToSortedSeq(F)>>])>>)
       /\ LET g2 == r.W.groups[G] IN
          /\ api' = g2.api /\ asg' = g2.asg /\ pc' = g2.pc /\ accepted' = g2.accepted
          /\ ctl' = IF r.crash THEN ctl ELSE g2.ctl       \* a crashed process has no memory; Restart resets it
          /\ alive' = r.W.alive
       /\ now' = r.W.now                         \* a slow cloud call lets a tick pass inside the scan
       /\ UNCHANGED <<pend, run, snap>>           \* pods of a removed node stay until they finish or the Node is collected

Next == Tick \/ PodArrive \/ PodSchedule \/ PodFinish \/ CloudLaunch \/ Register \/ Cordon \/ Uncordon \/ ExtForce \/ ExtUnforce
        \/ Annotate \/ Unannotate \/ ExtTaint \/ ExtUntaint \/ NodeGone \/ AsgEdit \/ DesiredBump \/ InstanceGone \/ InstanceLost \/ LagOn \/ LagOff \/ Restart \/ RunOnceAct

Spec == Init /\ [][Next]_vars

-----------------------------------------------------------------------------
(* State invariants *)

\* every outcome of a scan from this state satisfies the property predicates (same as the assertion in RunOnceAct,
\* in invariant form: used by the all-states configurations, where there is no behaviour to walk)
InvNoViolation == ~alive \/ \A F \in FaultSets : \A r \in Outcomes(World, F) : PropViolations(World, F, r) = {}

\* totality (C20): every state has a scan outcome, whatever fails
InvTotal == ~alive \/ \A F \in FaultSets : Outcomes(World, F) # {}

TypeOK == /\ asg.desired >= 0 /\ asg.members \subseteq NodeIds /\ DOMAIN api \subseteq NodeIds
          /\ pend \in 0..MaxPend /\ \A n \in NodeIds : run[n] >= 0

\* replay cases for the real code: one in EmitRate distinct states, with the fault sets explored from it
Emit == \/ EmitRate = 0
        \/ ~alive
        \/ RandomElement(1..EmitRate) # 1
        \/ PrintT(ToJson([kind |-> "STATE", state |-> World, faultsets |-> SetToSortedSeq({SetToSortedSeq(F) : F \in FaultSets})]))

-----------------------------------------------------------------------------
(* Time-abstracting view: every stored instant x becomes min(now - x, C) with C above every threshold, plus what the  *)
(* scan compares among instants: creation ranks, created = now (a node registered this tick can still tie with the   *)
(* next registration) and created vs lastOut.                                                                       *)
CapT == Max2(Max2(CfgC.hard, CfgC.cool), CfgC.maxAge) + 1
Sat(x) == IF now - x > CapT THEN CapT ELSE IF now - x < -1 THEN -1 ELSE now - x
Rank(n) == Cardinality({m \in Present : api[m].created < api[n].created})
AbsSnap == IF ~snap.on THEN snap ELSE
  [snap EXCEPT !.api = [n \in DOMAIN snap.api |->
     [snap.api[n] EXCEPT !.created = <<Cardinality({m \in DOMAIN snap.api : snap.api[m].created < snap.api[n].created}), snap.api[n].created = now,
                                        IF CfgC.maxAge > 0 THEN Sat(snap.api[n].created) ELSE 0,
                                        IF snap.api[n].created > ctl.lastOut THEN 1 ELSE IF snap.api[n].created = ctl.lastOut THEN 0 ELSE -1,
                                        n \in Present /\ api[n].created = snap.api[n].created>>,
                          !.taint = IF @.has /\ @.ok THEN [@ EXCEPT !.at = Sat(@)] ELSE @]]]
View == << [n \in Present |-> [api[n] EXCEPT !.created = <<Rank(n), api[n].created = now, IF CfgC.maxAge > 0 THEN Sat(api[n].created) ELSE 0,
                                                           IF api[n].created > ctl.lastOut THEN 1 ELSE IF api[n].created = ctl.lastOut THEN 0 ELSE -1>>,
                                             !.taint = IF @.has /\ @.ok THEN [@ EXCEPT !.at = Sat(@)] ELSE @]],
           run, pend, asg, pc,
           [ctl EXCEPT !.lockAt = Sat(@), !.lastOut = Sat(@)],
           Sat(accepted), alive, AbsSnap >>
=============================================================================
