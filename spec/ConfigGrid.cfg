CONSTANTS
  Tier = "quick"
INIT Init
NEXT Next
INVARIANTS AcceptsImpliesSafe Emit
CHECK_DEADLOCK FALSE
