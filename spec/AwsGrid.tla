------------------------------ MODULE AwsGrid -------------------------------
(* Enumerates the provider-level input grids (C17 / C19) and the terminal behaviours of the small-step fleet model         *)
(* (AwsGroup.tla, C17 / C18) as cases for the real code, checking the property predicates on the specification's own      *)
(* summaries on the way (a specification that violated them would be useless as an oracle).                               *)
EXTENDS AwsCore, Json, TLCExt

CONSTANTS Tier   \* "quick" | "thorough"

VARIABLE case

NoPlan == [failDescribe |-> FALSE, failCreate |-> FALSE, noCapacity |-> FALSE, failSet |-> FALSE, failAttach |-> 0, failTerm |-> {}]

IncCase(min, max, desired, nmemb, d, fleet, lc, types, subnets, tagging, plan) ==
  [kind |-> "inc", min |-> min, max |-> max, desired |-> desired, nmemb |-> nmemb, d |-> d, fleet |-> fleet, lifecycle |-> lc, types |-> types,
   subnets |-> subnets, tagging |-> tagging, never |-> FALSE, prefail |-> 0, preInc |-> 0,
   failDescribe |-> plan.failDescribe, failCreate |-> plan.failCreate, noCapacity |-> plan.noCapacity, failSet |-> plan.failSet,
   failAttach |-> plan.failAttach, failTerm |-> <<>>, failNodes |-> <<>>, list |-> <<>>]

\* (desired, max, d) around every boundary; the instance list may lag behind or run ahead of the desired capacity
SetGrid ==
  {IncCase(mn, 10, ds, nm, d, FALSE, "", 0, 1, FALSE, [NoPlan EXCEPT !.failSet = fs]) :
     mn \in {0, 2}, ds \in {2, 3, 9, 10}, nm \in {0, 3, 10}, d \in {-1, 0, 1, 2, 7, 8, 9}, fs \in BOOLEAN}
FleetVariants ==
  {IncCase(0, 100, 3, 3, d, TRUE, lc, ty, sn, tg, [NoPlan EXCEPT !.noCapacity = nc, !.failDescribe = fd]) :
     d \in {0, 21, 98}, lc \in {"", "on-demand", "spot"}, ty \in {0, 2}, sn \in {1, 3}, tg \in BOOLEAN, nc \in BOOLEAN, fd \in {FALSE}}
  \cup {IncCase(0, 100, 3, 3, 5, TRUE, "", 0, 1, FALSE, [NoPlan EXCEPT !.failDescribe = TRUE])}
  \* a second scale-up of the same group by the same provider object, with the same or another delta (fleet and plain)
  \cup {[IncCase(0, 100, 3, 3, d, fl, lc, 0, 1, FALSE, NoPlan) EXCEPT !.preInc = p] : d \in {1, 2, 21}, p \in {1, 2, 30}, fl \in BOOLEAN, lc \in {"", "spot"}}

Names == {"m1", "m2", "m3", "x1"}
Pairs == {p \in Names \X Names : p[1] # p[2]}
Triples == {t \in Names \X Names \X Names : t[1] # t[2] /\ t[1] # t[3] /\ t[2] # t[3]}
Lists == {<<a>> : a \in Names} \cup Pairs
         \cup (IF Tier = "quick" THEN {<<"m1", "x1", "m2">>, <<"m3", "m2", "m1">>, <<"m1", "m2", "x1">>} ELSE Triples)
DelCase(min, desired, nmemb, list, fail) ==
  [kind |-> "del", min |-> min, max |-> 10, desired |-> desired, nmemb |-> nmemb, d |-> 0, fleet |-> FALSE, lifecycle |-> "", types |-> 0, subnets |-> 1,
   tagging |-> FALSE, never |-> FALSE, prefail |-> 0, preInc |-> 0, failDescribe |-> FALSE, failCreate |-> FALSE, noCapacity |-> FALSE, failSet |-> FALSE,
   failAttach |-> 0, failTerm |-> <<>>, failNodes |-> fail, list |-> list]
DelGrid ==
  {DelCase(mn, ds, nm, l, f) : mn \in {0, 1, 2}, ds \in {1, 2, 3, 4}, nm \in {2, 3, 5}, l \in Lists,
                               f \in {<<>>} \cup (IF Tier = "quick" THEN {<<"m2">>} ELSE {<<"m1">>, <<"m2">>, <<"m3">>})}

\* DeleteNodes (possibly failing midway) followed by IncreaseSize on the same provider object, without a refresh in between
\* (what a scan does when it removes nodes and then scales up): the increase starts from the desired capacity the cloud now has
DelIncGrid ==
  {[DelCase(mn, ds, nm, l, f) EXCEPT !.kind = "delinc", !.d = d, !.max = 10] :
     mn \in {0, 1}, ds \in {3, 4}, nm \in {4}, l \in {<<"m1">>, <<"m1", "m2">>, <<"m1", "m2", "m3">>, <<"m2", "x1">>}, f \in {<<>>, <<"m2">>, <<"m3">>}, d \in {1, 2}}

Grid == SetGrid \cup FleetVariants \cup DelGrid \cup DelIncGrid

SpecCase(k) == [min |-> k.min, max |-> k.max, desired |-> k.desired, d |-> k.d, fleet |-> k.fleet, lifecycle |-> k.lifecycle, types |-> k.types,
                subnets |-> k.subnets, tagging |-> k.tagging, never |-> k.never, tries0 |-> k.prefail, lo |-> 0,
                members |-> {"m" \o ToString(i) : i \in 1..k.nmemb}, list |-> k.list]
SpecPlan(k) == [failDescribe |-> k.failDescribe, failCreate |-> k.failCreate, noCapacity |-> k.noCapacity, failSet |-> k.failSet,
                failAttach |-> k.failAttach, failTerm |-> {}]
SeqSet(s) == {s[i] : i \in 1..Len(s)}

\* the specification's own summary satisfies the property predicates
GridOK ==
  LET c == SpecCase(case) IN
  IF case.kind = "inc"
    THEN LET r == IncResult(c, SpecPlan(case))
             post == c.desired + r.attached + (IF r.setTo >= 0 THEN r.setTo - c.desired ELSE 0)
         IN C17bad(c, r.calls, r.ret, post) = {} /\ C18bad(c, r.calls, r.ret) = {}
    ELSE LET r == DelResult(c, SeqSet(case.failNodes)) IN C19bad(c, r.calls, r.ret) = {}
    \* (for "delinc" the increase is validated on the real code by TraceAws; the delete part is the same as "del")

Emit == PrintT(ToJson([kind |-> "CASE", case |-> case]))

Init == case \in Grid
Next == UNCHANGED case
=============================================================================
