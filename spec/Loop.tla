-------------------------------- MODULE Loop --------------------------------
(***************************************************************************)
(* The controller's own loop (controller.go RunForever): scan on start (if *)
(* asked), then on every tick; a scan that returns an error ends the loop  *)
(* (main turns that into a process exit); the stop signal ends it with     *)
(* "main loop stopped".  In a scan only the not-in-node-group error is     *)
(* returned; problems confined to one group are logged and the later       *)
(* groups are still processed (C19, C20, C12).                             *)
(* case: [fatalAt, failAt, stopAfter, immediate]                           *)
(***************************************************************************)
EXTENDS Integers, Sequences, FiniteSets, TLC, Json

CONSTANTS MaxScan
VARIABLES c, n, bscans, state     \* scans started, scans in which the second group was processed, running | fatal | stopped
lvars == <<c, n, bscans, state>>

Cases == {[kind |-> "loop", fatalAt |-> f, failAt |-> j, stopAfter |-> s, immediate |-> i] :
            f \in 0..MaxScan, j \in 0..MaxScan, s \in 1..MaxScan, i \in BOOLEAN}
LInit == c \in Cases /\ n = 0 /\ bscans = 0 /\ state = "running"

\* the scan at which the fatal condition is acted on: a failing pod list of the same group in that scan postpones it by one scan
Eff(k) == IF k.fatalAt > 0 /\ k.failAt = k.fatalAt THEN k.fatalAt + 1 ELSE k.fatalAt

\* one tick (or the immediate first run): a scan
Scan == /\ state = "running"
        /\ n' = n + 1
        /\ IF Eff(c) = n + 1 THEN state' = "fatal" /\ bscans' = bscans          \* the first group's fatal error: later groups skipped, loop ends
           ELSE state' = "running" /\ bscans' = bscans + 1                         \* a failing pod list of the first group does not stop the second
        /\ UNCHANGED c
\* the stop signal is raised when scan stopAfter starts; the loop sees it at its next select (possibly after one more tick)
Stop == /\ state = "running" /\ n >= c.stopAfter /\ state' = "stopped" /\ UNCHANGED <<c, n, bscans>>
LNext == Scan \/ Stop
Bound == n <= MaxScan + 1

\* what a finished run may look like
\* (Go's select picks at random among ready cases: after the stop signal the loop may still take further ticks first)
Admissible(k, scans, bs, ret) ==
  IF Eff(k) > 0 /\ Eff(k) <= k.stopAfter
    THEN ret = "notingroup" /\ scans = Eff(k) /\ bs = Eff(k) - 1
    ELSE \/ (ret = "stopped" /\ scans >= k.stopAfter /\ (Eff(k) = 0 \/ scans < Eff(k)) /\ bs = scans)
         \/ (Eff(k) > k.stopAfter /\ ret = "notingroup" /\ scans = Eff(k) /\ bs = scans - 1)

\* the small-step loop only ends in admissible ways, and never scans after a fatal error
InvEnd == state # "running" => Admissible(c, n, bscans, IF state = "fatal" THEN "notingroup" ELSE "stopped")
InvFatalStops == state = "fatal" => n = Eff(c)
Emit == n > 0 \/ PrintT(ToJson([kind |-> "CASE", case |-> c]))
=============================================================================
