------------------------------ MODULE TraceAws ------------------------------
(* Validates provider-level traces (harness `awsgroup`): each line is one real IncreaseSize / DeleteNodes call over the   *)
(* simulated AWS.  Conformance: the recorded calls are the big-step summary of AwsGroup for the case and its fault plan. *)
(* Properties: C17bad / C18bad / C19bad on the recorded calls.                                                           *)
EXTENDS AwsCore, Json, SequencesExt

CONSTANTS TraceFile
Trace == ndJsonDeserialize(TraceFile)
VARIABLE l

Runs(r) == [i \in 1..Len(r) |-> <<r[i][1], r[i][2]>>]
\* observed calls in the abstract shape (readiness polls that saw "not ready" are timing dependent: dropped)
Obs(line) ==
  LET cs == SelectSeq(line.calls, LAMBDA x : ~(x.op = "status" /\ ~x.ok)) IN
  [i \in 1..Len(cs) |-> [op |-> cs[i].op, ok |-> cs[i].ok, a |-> cs[i].a, b |-> cs[i].b, r |-> Runs(cs[i].r),
                          s |-> IF cs[i].op = "create_fleet" THEN cs[i].s ELSE ""]]
ObsDel(line) ==
  LET cs == SelectSeq(line.calls, LAMBDA x : x.op = "terminate") IN
  [i \in 1..Len(cs) |-> [op |-> "terminate", ok |-> cs[i].ok, n |-> cs[i].n, a |-> cs[i].a]]

FirstId(line) == LET f == SelectSeq(line.calls, LAMBDA x : x.op = "fleet_ids") IN IF f = <<>> THEN 0 ELSE f[1].a

CaseOf(line) ==
  LET k == line.case IN
  \* preInc: an earlier, successful scale-up of preInc instances on the same provider object (then a refresh): the case starts from there
  [min |-> k.min, max |-> k.max, desired |-> k.desired + (IF "preInc" \in DOMAIN k THEN k.preInc ELSE 0), d |-> k.d, fleet |-> k.fleet, lifecycle |-> k.lifecycle, types |-> k.types,
   subnets |-> k.subnets, tagging |-> k.tagging, never |-> k.never, tries0 |-> k.prefail, lo |-> FirstId(line),
   members |-> {"m" \o ToString(i) : i \in 1..k.nmemb}, list |-> k.list]
PlanOf(line) ==
  LET k == line.case IN
  [failDescribe |-> k.failDescribe, failCreate |-> k.failCreate, noCapacity |-> k.noCapacity, failSet |-> k.failSet,
   failAttach |-> k.failAttach, failTerm |-> ToSet(k.failTerm)]

\* "delinc": the recorded set_desired after the delete must be (desired - accepted terminations) + d, exactly once, if admissible
DelIncViol(line, cs0) ==
  LET tm == SelectSeq(line.calls, LAMBDA x : x.op = "terminate" /\ x.ok)
      sd == SelectSeq(line.calls, LAMBDA x : x.op = "set_desired")
      cur == cs0.desired - Len(tm)
  IN IF cur + cs0.d > cs0.max THEN (IF Len(sd) # 0 THEN {<<"C17", "rejected-request-wrote-or-succeeded">>} ELSE {})
     ELSE (IF ~(Len(sd) = 1 /\ sd[1].a = cur + cs0.d) THEN {<<"C17", "set-desired-not-current-plus-delta-after-removals">>} ELSE {})
          \cup (IF Len(sd) >= 1 /\ sd[1].a < cur THEN {<<"C17", "desired-lowered">>} ELSE {})

CheckLine(i) ==
  LET line == Trace[i]
      cs0 == CaseOf(line)
      isInc == line.case.kind = "inc"
      isDelInc == line.case.kind = "delinc"
      exp == IF isInc THEN IncResult(cs0, PlanOf(line)) ELSE DelResult(cs0, ToSet(line.case.failNodes))
      obs == IF isInc THEN Obs(line) ELSE ObsDel(line)
      postDesired == line.post.desired
      mm == (IF exp.calls # obs THEN {"calls"} ELSE {}) \cup (IF ~isDelInc /\ exp.ret # line.ret THEN {"ret"} ELSE {})
            \cup (IF line.panic THEN {"panic"} ELSE {})
            \cup (IF isInc /\ exp.exit # line.exit THEN {"exit"} ELSE {})
            \cup (IF isInc /\ ~line.exit /\ exp.tries # line.tries THEN {"tries"} ELSE {})
            \cup (IF isInc /\ postDesired # cs0.desired + exp.attached + (IF exp.setTo >= 0 THEN exp.setTo - cs0.desired ELSE 0) THEN {"post.desired"} ELSE {})
      viol == IF isInc THEN {<<"C17", x>> : x \in C17bad(cs0, obs, line.ret, postDesired)} \cup {<<"C18", x>> : x \in C18bad(cs0, obs, line.ret)}
                            \cup (IF line.exit /\ ~(cs0.fleet /\ cs0.tries0 >= MaxTries - 1) THEN {<<"C20", "undocumented-exit">>} ELSE {})
                            \cup (IF line.panic THEN {<<"C20", "panic">>} ELSE {})
              ELSE {<<"C19", x>> : x \in C19bad(cs0, obs, IF isDelInc THEN line.case.delRet ELSE line.ret)}
                   \cup (IF isDelInc THEN DelIncViol(line, cs0) ELSE {})
      facts == IF isInc THEN
                 (IF cs0.fleet THEN {"fleet"} ELSE {"set-desired"})
                 \cup (IF cs0.d <= 0 \/ cs0.desired + cs0.d > cs0.max THEN {"rejected"} ELSE {})
                 \cup (IF cs0.fleet /\ line.ret = "nil" THEN {"fleet-success"} ELSE {})
                 \cup (IF cs0.fleet /\ "preInc" \in DOMAIN line.case /\ line.case.preInc > 0 /\ line.case.preInc # cs0.d
                          /\ \E j \in 1..Len(obs) : obs[j].op = "create_fleet" THEN {"fleet-second-scale-up-other-delta"} ELSE {})
                 \cup (IF cs0.fleet /\ cs0.never THEN {"fleet-never-ready"} ELSE {})
                 \cup (IF cs0.fleet /\ cs0.never /\ "readyK" \in DOMAIN line.case /\ line.case.readyK > 0
                          /\ \E j \in 1..Len(line.calls) : line.calls[j].op = "status" THEN {"fleet-partially-ready-at-deadline"} ELSE {})
                 \cup (IF cs0.fleet /\ line.case.failAttach > 0 /\ \E j \in 1..Len(obs) : obs[j].op = "attach" /\ ~obs[j].ok THEN {"fleet-attach-failed"} ELSE {})
                 \cup (IF \E j \in 1..Len(obs) : obs[j].op = "terminate_instances" /\ ~obs[j].ok THEN {"fleet-terminate-failed"} ELSE {})
                 \cup (IF Len(SelectSeq(obs, LAMBDA x : x.op = "terminate_instances")) > 1 THEN {"fleet-terminate-several-batches"} ELSE {})
                 \cup (IF Len(SelectSeq(obs, LAMBDA x : x.op = "attach")) > 1 THEN {"fleet-attach-several-batches"} ELSE {})
                 \cup (IF line.exit THEN {"fleet-exit-after-3"} ELSE {})
               ELSE
                 (IF isDelInc THEN {"del-then-increase"} ELSE {})
                 \cup (IF exp.ret = "notingroup" THEN {"del-not-in-group"} ELSE {})
                 \cup (IF exp.ret = "nil" /\ Len(obs) > 0 THEN {"del-all-terminated"} ELSE {})
                 \cup (IF exp.ret = "error" /\ Len(obs) = 0 THEN {"del-refused-whole"} ELSE {})
                 \cup (IF \E j \in 1..Len(obs) : ~obs[j].ok THEN {"del-terminate-failed"} ELSE {})
  IN /\ IF mm = {} THEN TRUE ELSE PrintT(ToJson([kind |-> "DIVERGENCE", line |-> i, src |-> line.src, id |-> i, what |-> mm, branches |-> [x \in {} |-> 0], expCalls |-> exp.calls]))
     /\ IF viol = {} THEN TRUE ELSE PrintT(ToJson([kind |-> "VIOLATIONS", line |-> i, src |-> line.src, id |-> i, v |-> {<<x[1], x[2], "", "">> : x \in viol}]))
     /\ PrintT(ToJson([kind |-> "LINE", line |-> i, branches |-> [k \in {"case"} |-> line.case.kind], facts |-> facts]))

Init == l = 1
Next == l <= Len(Trace) /\ CheckLine(l) /\ l' = l + 1
Done == PrintT(ToJson([kind |-> "DONE", lines |-> Len(Trace), reached |-> TLCGet("stats").diameter - 1]))
=============================================================================
