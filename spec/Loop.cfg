CONSTANTS
  MaxScan = 4
INIT LInit
NEXT LNext
CONSTRAINT Bound
INVARIANTS InvEnd InvFatalStops Emit
CHECK_DEADLOCK FALSE
