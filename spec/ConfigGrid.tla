----------------------------- MODULE ConfigGrid -----------------------------
EXTENDS Config, Json, TLC
CONSTANTS Tier
VARIABLE case
\* the validator's rule set, as transcribed, admits only safe configurations
AcceptsImpliesSafe == Accepts(case) => Safe(case)
Emit == PrintT(ToJson([kind |-> "CASE", case |-> [case EXCEPT !.name = @] @@ [kind |-> "cfg"]]))
Init == case \in (IF Tier = "quick" THEN Singles ELSE Singles \cup PairsOf(0))
Next == UNCHANGED case
=============================================================================
